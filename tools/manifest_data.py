CLAIMED = {
 "C17": ("Each stateless limit middleware base (max filters, max limit, sub-id length, event tags, content length, created_at lower/upper/window, allow/deny filter) is proved, for all limit values and all messages, to forward the message unchanged iff it respects the limit and otherwise to answer with exactly one rejecting OK (event id) / CLOSED (subscription id) and forward nothing; server messages pass unchanged; the NIP-11 chain equals the composition of exactly the middlewares whose limit is non-zero (identity without document or limitation block).",
         "Assumes: clock read once per activation (ghost nowNs), created_at limits within +-9223372036 s (no int64 overflow of seconds*1e9), New*Middleware constructors are functions of their argument (trusted), NewSimpleMiddleware goroutine plumbing (not under contract), allow/deny matcher meaning abstract (C02).",
         "DESIGN.md §6 C17"),
 "C11": ("Every field validator of the admission gate (hex strings, id/pubkey/sig length, kind range, tag shape) is proved equal to the NIP-01 predicate for all inputs (both directions: no false rejection, no unsound acceptance); loops are cut by inductive invariants, no bound.",
         "Assumes the UTF-8 decoding contract of Go's range-over-string and solver soundness. Text-level parsing (regexp, encoding/json) is outside these contracts.",
         "DESIGN.md §6 C11"),
}
_pending = "no contract-based check has been built for this property yet in this task (work in progress); not claimed rather than claimed with a weaker technique"
NOT_APPLICABLE = {k: _pending for k in ["C01","C02","C03","C04","C05","C06","C07","C08","C09","C10","C12","C13","C14","C15","C16","C18","C19","C20"]}
