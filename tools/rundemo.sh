#!/bin/sh
# usage: tools/rundemo.sh <findings file> <TestName> [pkgdir]  — runs a demonstration against /repo through -overlay
export GOFLAGS=-mod=mod GOPROXY=off GOSUMDB=off GOTOOLCHAIN=local
f=$1; t=$2; pkg=${3:-.}
ov=$(mktemp /tmp/ov.XXXXXX.json)
printf '{"Replace":{"%s/%s":"%s"}}' "$(cd /repo/$pkg && pwd)" "zz_govc_demo_test.go" "$(readlink -f $f)" > $ov
(cd /repo && go test -overlay $ov -vet=off -count=1 -v -timeout 120s -run "$t" ./$pkg)
rc=$?
rm -f $ov
exit $rc
