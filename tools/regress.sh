#!/bin/sh
# runs every claimed check's quick tier and prints one line each (development helper)
cd /verif
ids=$(python3 -c "
import json
print(' '.join(c['property_id'] if 'property_id' in c else c.get('id','') for c in json.load(open('MANIFEST.json'))['checks']))")
rc=0
for p in $ids; do
  out=$(GOVC_DEV_NOSEARCH=${GOVC_DEV_NOSEARCH-1} ./check $p quick 2>&1); r=$?
  echo "$out" | grep "^property\|UNDEC" | cut -c1-170
  [ $r -ne 0 ] && { rc=1; echo "$out" | grep "failed obl" | cut -c1-200 | head -5; }
done
exit $rc
