#!/usr/bin/env python3
"""Confirms and records a seeded change produced by a sub-agent.
usage: seed_eval.py <worktree> <property> <name> [demo-package-dir-relative]
Copies <worktree>/SEEDED/* to /verif/seeded/<name>/ (if present), then works on a scratch COPY of /repo (never on /repo
itself): demo on the unchanged copy; apply the patch; build; existing tests; demo again; govc check of the property
against the copy (same engine, specs and known findings as ./check <property> quick); removes the copy."""
import json, os, shutil, subprocess, sys, time, tempfile
wt, prop, name = sys.argv[1:4]
pkgdir = sys.argv[4] if len(sys.argv) > 4 else "."
V = "/verif"; R = "/repo"
env = dict(os.environ, GOFLAGS="-mod=mod", GOPROXY="off", GOSUMDB="off", GOTOOLCHAIN="local")
dst = os.path.join(V, "seeded", name)
os.makedirs(dst, exist_ok=True)
for f in ("patch.diff", "zz_seeded_demo_test.go", "notes.md"):
    src = os.path.join(wt, "SEEDED", f)
    if os.path.exists(src):
        shutil.copy(src, os.path.join(dst, f))
patch = os.path.join(dst, "patch.diff"); demo = os.path.join(dst, "zz_seeded_demo_test.go")
tmp = tempfile.mkdtemp(prefix="govc-seed-")
C = os.path.join(tmp, "repo")
shutil.copytree(R, C, ignore=shutil.ignore_patterns(".git"))
def run(cmd, cwd=C, timeout=1500):
    r = subprocess.run(cmd, cwd=cwd, env=env, capture_output=True, text=True, errors="replace", timeout=timeout)
    return r.returncode, (r.stdout + r.stderr)
meta = {"property": prop, "name": name, "pkgdir": pkgdir}
try:
    ov = os.path.join(tmp, "ov.json")
    json.dump({"Replace": {os.path.join(C, pkgdir, "zz_seeded_demo_test.go"): demo}}, open(ov, "w"))
    demo_run = ["go", "test", "-overlay", ov, "-vet=off", "-count=1", "-timeout", "120s", "-run", "Seeded", "./" + pkgdir]
    rc, out = run(demo_run); meta["demo_without_change"] = "pass" if rc == 0 else "FAIL"; meta["demo_without_output"] = out[-600:]
    rc, out = run(["patch", "-p1", "-i", patch])
    if rc != 0:
        print("PATCH DOES NOT APPLY:", out); sys.exit(1)
    rc, out = run(["go", "build", "./..."]); meta["builds"] = rc == 0
    rc, out = run(["go", "test", "-vet=off", "-count=1", "./..."]); meta["existing_tests_with_change"] = "pass" if rc == 0 else "FAIL"; meta["existing_tests_output"] = out[-400:]
    rc, out = run(demo_run); meta["demo_with_change"] = "fail" if rc != 0 else "PASSES"; meta["demo_with_output"] = out[-800:]
    t0 = time.time()
    rc, out = run([os.path.join(V, "bin", "govc"), "check", "-repo", C, "-specs", os.path.join(V, "specs"), "-prop", prop, "-tier", "quick",
                   "-out", os.path.join(tmp, "out"), "-evidence", os.path.join(tmp, "ev.json"), "-known", os.path.join(V, "known_findings.json"), "-par", "8"], cwd=V)
    meta["check_rc"] = rc; meta["check_wall_s"] = round(time.time() - t0, 1)
    meta["check_output"] = [l.replace(tmp, "<scratch>") for l in out.splitlines() if l.startswith(("VIOLATION", "UNDECIDED", "  failed", "property="))][:12]
finally:
    shutil.rmtree(tmp, ignore_errors=True)
meta["detected"] = meta.get("check_rc") == 1
meta["what_we_ran"] = "tools/seed_eval.py on a scratch copy of /repo: demo via -overlay; patch -p1; go build; go test ./...; demo again; govc check -prop %s -tier quick (= ./check %s quick on the copy); copy removed" % (prop, prop)
json.dump(meta, open(os.path.join(dst, "meta.json"), "w"), indent=1)
print(json.dumps({k: v for k, v in meta.items() if not k.endswith("output")}, indent=1))
