#!/usr/bin/env python3
"""Confirms and records a seeded change produced by a sub-agent.
usage: seed_eval.py <worktree> <property> <name> [demo-package-dir-relative]
Copies <worktree>/SEEDED/* to /verif/seeded/<name>/, applies the patch to /repo, confirms: builds, existing tests pass,
demo fails with the change / passes without it; runs ./check <property> against the patched /repo; reverts /repo."""
import json, os, shutil, subprocess, sys, time
wt, prop, name = sys.argv[1:4]
pkgdir = sys.argv[4] if len(sys.argv) > 4 else "."
V = "/verif"; R = "/repo"
env = dict(os.environ, GOFLAGS="-mod=mod", GOPROXY="off", GOSUMDB="off", GOTOOLCHAIN="local", GOVC_EVIDENCE_DIR="/tmp/govc-seed-evidence")
dst = os.path.join(V, "seeded", name)
os.makedirs(dst, exist_ok=True)
for f in ("patch.diff", "zz_seeded_demo_test.go", "notes.md"):
    src = os.path.join(wt, "SEEDED", f)
    if os.path.exists(src):
        shutil.copy(src, os.path.join(dst, f))
patch = os.path.join(dst, "patch.diff"); demo = os.path.join(dst, "zz_seeded_demo_test.go")
def run(cmd, cwd=R, timeout=900):
    r = subprocess.run(cmd, cwd=cwd, env=env, capture_output=True, text=True, timeout=timeout)
    return r.returncode, (r.stdout + r.stderr)
assert subprocess.run(["git", "-C", R, "status", "--porcelain"], capture_output=True, text=True).stdout.strip() == "", "/repo not clean"
ov = os.path.join("/tmp", f"ov-{name}.json")
json.dump({"Replace": {os.path.join(R, pkgdir, "zz_seeded_demo_test.go"): demo}}, open(ov, "w"))
demo_run = ["go", "test", "-overlay", ov, "-vet=off", "-count=1", "-timeout", "120s", "-run", "Seeded", "./" + pkgdir]
meta = {"property": prop, "name": name, "pkgdir": pkgdir}
rc, out = run(demo_run); meta["demo_without_change"] = "pass" if rc == 0 else "FAIL"; meta["demo_without_output"] = out[-600:]
rc, out = run(["git", "apply", "--whitespace=nowarn", patch]); 
if rc != 0:
    print("PATCH DOES NOT APPLY:", out); sys.exit(1)
try:
    rc, out = run(["go", "build", "./..."]); meta["builds"] = rc == 0
    rc, out = run(["go", "test", "-vet=off", "-count=1", "./..."]); meta["existing_tests_with_change"] = "pass" if rc == 0 else "FAIL"; meta["existing_tests_output"] = out[-400:]
    rc, out = run(demo_run); meta["demo_with_change"] = "fail" if rc != 0 else "PASSES"; meta["demo_with_output"] = out[-800:]
    t0 = time.time()
    rc, out = run([os.path.join(V, "check"), prop, "quick"], cwd=V)
    meta["check_rc"] = rc; meta["check_wall_s"] = round(time.time() - t0, 1)
    meta["check_output"] = [l for l in out.splitlines() if l.startswith(("VIOLATION", "UNDECIDED", "  failed", "property="))][:12]
finally:
    subprocess.run(["git", "-C", R, "checkout", "--", "."], check=True)
meta["detected"] = meta.get("check_rc") == 1
meta["what_we_ran"] = "tools/seed_eval.py: git apply; go build; go test ./...; demo via -overlay with and without the change; ./check %s quick; git checkout -- ." % prop
json.dump(meta, open(os.path.join(dst, "meta.json"), "w"), indent=1)
print(json.dumps({k: v for k, v in meta.items() if not k.endswith("output")}, indent=1))
