#!/bin/sh
# development helper: tools/dev.sh <prop> <func-substring>  (not a registered command; writes to /tmp)
export GOVC_DEV_NOSEARCH=1 GOFLAGS=-mod=mod GOPROXY=off GOSUMDB=off GOTOOLCHAIN=local
/verif/bin/govc check -repo /repo -specs /verif/specs -prop $1 -tier quick -out /tmp/govc-dev -evidence /tmp/govc-dev/ev.json -known /verif/known_findings.json -par 12 -only "$2" 2>&1 | grep "failed obl\|^property\|UNDECIDED\|note:" | cut -c1-400
