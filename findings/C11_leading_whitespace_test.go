package mocrelay

import "testing"

// Demonstration for finding C11/clientMsgRegexp: insignificant JSON whitespace before the opening bracket is part
// of a well-formed client message; before the fix ParseClientMsg answered "not a client msg".
func TestGovcFindingC11LeadingWhitespace(t *testing.T) {
	for _, s := range []string{`["CLOSE","sub"]`, ` ["CLOSE","sub"]`, "\n\t[ \"CLOSE\" , \"sub\" ]\n"} {
		msg, err := ParseClientMsg([]byte(s))
		if err != nil || !ValidClientMsg(msg) {
			t.Errorf("GOVC-REPRODUCED: well-formed message %q rejected: %v", s, err)
		}
	}
}
