package mocrelay

import (
	"context"
	"net/http"
	"net/http/httptest"
	"strings"
	"testing"
	"time"

	"github.com/coder/websocket"
)

// Demonstration for finding C13/sendMsgWithTimeout: a peer that stops reading must be dropped once a write has been
// blocked for SendTimeout, whatever the other options are. Before the fix the deadline was only applied when
// PingDuration > 0, so with pings disabled a stalled peer blocked the writer indefinitely.
func TestGovcFindingC13SendTimeoutWithoutPing(t *testing.T) {
	relay := NewRelay(NewDefaultHandler(), &RelayOption{SendTimeout: 200 * time.Millisecond, PingDuration: 0,
		RecvRateLimitRate: 10, RecvRateLimitBurst: 10, MaxMessageLength: 100000})
	result := make(chan string, 1)
	srv := httptest.NewServer(http.HandlerFunc(func(w http.ResponseWriter, r *http.Request) {
		conn, err := websocket.Accept(w, r, &websocket.AcceptOptions{InsecureSkipVerify: true})
		if err != nil {
			result <- "accept failed"
			return
		}
		defer conn.CloseNow()
		msg := []byte(`["NOTICE","` + strings.Repeat("x", 60000) + `"]`)
		deadline := time.Now().Add(3 * time.Second)
		for time.Now().Before(deadline) {
			done := make(chan error, 1)
			go func() { done <- relay.sendMsgWithTimeout(context.Background(), conn, msg) }()
			select {
			case err := <-done:
				if err != nil {
					result <- "write failed (peer dropped): " + err.Error()
					return
				}
			case <-time.After(2 * time.Second):
				result <- "BLOCKED"
				return
			}
		}
		result <- "never blocked"
	}))
	defer srv.Close()
	c, _, err := websocket.Dial(context.Background(), "ws"+strings.TrimPrefix(srv.URL, "http"), nil)
	if err != nil {
		t.Fatal(err)
	}
	defer c.CloseNow()
	// the client never reads
	got := <-result
	if got == "BLOCKED" {
		t.Fatalf("GOVC-REPRODUCED: a write to a stalled peer stayed blocked for 2s although SendTimeout is 200ms (PingDuration = 0)")
	}
	t.Log(got)
}
