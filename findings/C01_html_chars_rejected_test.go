package mocrelay

import (
	"crypto/sha256"
	"encoding/hex"
	"fmt"
	"testing"

	"github.com/btcsuite/btcd/btcec/v2"
	"github.com/btcsuite/btcd/btcec/v2/schnorr"
)

// Demonstration for finding C01/Event.Serialize: an event that is correctly signed over the NIP-01 canonical
// serialization (only the escapes NIP-01 mandates) must be reported authentic whatever characters its content
// holds. Before the fix, < > & U+2028 U+2029 were serialized as \u escapes, so such events were rejected.
func TestGovcFindingC01HTMLChars(t *testing.T) {
	for _, content := range []string{"a<b", "x>y", "R&D", "line sep", "para sep", "plain"} {
		priv, err := btcec.NewPrivateKey()
		if err != nil {
			t.Fatal(err)
		}
		pub := hex.EncodeToString(schnorr.SerializePubKey(priv.PubKey()))
		canon := fmt.Sprintf(`[0,"%s",1700000000,1,[["t","%s"]],"%s"]`, pub, content, content)
		id := sha256.Sum256([]byte(canon))
		sig, err := schnorr.Sign(priv, id[:])
		if err != nil {
			t.Fatal(err)
		}
		ev := &Event{ID: hex.EncodeToString(id[:]), Pubkey: pub, CreatedAt: 1700000000, Kind: 1,
			Tags: []Tag{{"t", content}}, Content: content, Sig: hex.EncodeToString(sig.Serialize())}
		ok, err := ev.Verify()
		if err != nil || !ok {
			t.Errorf("GOVC-REPRODUCED: correctly signed event with content %q reported not authentic (ok=%v err=%v)", content, ok, err)
		}
	}
}
