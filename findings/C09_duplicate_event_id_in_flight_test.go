package mocrelay

import (
	"context"
	"testing"
	"time"
)

// Demonstration for the known finding C09/TrySetEventID: two EVENT messages carrying the same event id
// that are in flight at the same time are answered by ONE OK instead of two ("exactly one OK per EVENT").
func TestGovcFindingC09DuplicateEventIDInFlight(t *testing.T) {
	child := func() Handler {
		return HandlerFunc(func(ctx context.Context, send chan<- ServerMsg, recv <-chan ClientMsg) error {
			var got []*ClientEventMsg
			for {
				select {
				case <-ctx.Done():
					return ctx.Err()
				case m, ok := <-recv:
					if !ok {
						return ErrRecvClosed
					}
					if em, ok := m.(*ClientEventMsg); ok {
						got = append(got, em)
						if len(got) == 2 { // both requests are in flight: answer both
							for _, e := range got {
								sendCtx(ctx, send, ServerMsg(NewServerOKMsg(e.Event.ID, true, "", "")))
							}
							got = nil
						}
					}
				}
			}
		})
	}
	h := NewMergeHandler(child(), child())
	ctx, cancel := context.WithCancel(context.Background())
	defer cancel()
	recv := make(chan ClientMsg)
	send := make(chan ServerMsg, 16)
	go h.ServeNostr(ctx, send, recv)
	ev := &Event{ID: "aa", Tags: []Tag{}}
	recv <- &ClientEventMsg{Event: ev}
	recv <- &ClientEventMsg{Event: ev}
	oks := 0
	timeout := time.After(700 * time.Millisecond)
loop:
	for {
		select {
		case m := <-send:
			if _, ok := m.(*ServerOKMsg); ok {
				oks++
			}
		case <-timeout:
			break loop
		}
	}
	if oks != 2 {
		t.Fatalf("GOVC-REPRODUCED: 2 EVENT messages submitted, %d OK replies received", oks)
	}
}
