package sqlite

import (
	"context"
	"database/sql"
	"fmt"
	"testing"

	"github.com/high-moctane/mocrelay"
)

func govcFindingDB(t *testing.T, name string) *sql.DB {
	db, err := sql.Open("sqlite3", "file:"+name+"?mode=memory&cache=shared")
	if err != nil {
		t.Fatal(err)
	}
	db.SetMaxOpenConns(1)
	if err := Migrate(context.Background(), db); err != nil {
		t.Fatal(err)
	}
	return db
}

func govcFindingEv(n int, pk string, kind, at int64, tags ...mocrelay.Tag) *mocrelay.Event {
	if tags == nil {
		tags = []mocrelay.Tag{}
	}
	return &mocrelay.Event{ID: fmt.Sprintf("%064x", n), Pubkey: pk, Kind: kind, CreatedAt: at, Tags: tags, Content: "c", Sig: fmt.Sprintf("%0128x", n)}
}

var govcFindingAlice = fmt.Sprintf("%064x", 0xa11ce)

// C06 / appendLimitQuery: a filter with limit 0 selects nothing, but goqu's Limit(0) REMOVES the limit clause.
func TestGovcFindingC06LimitZero(t *testing.T) {
	ctx := context.Background()
	db := govcFindingDB(t, "govcf1")
	defer db.Close()
	if err := insertEvents(ctx, db, 1, []*mocrelay.Event{govcFindingEv(1, govcFindingAlice, 1, 1)}); err != nil {
		t.Fatal(err)
	}
	zero := int64(0)
	got, err := queryEvent(ctx, db, 1, []*mocrelay.ReqFilter{{Limit: &zero}}, NoLimit)
	if err != nil || len(got) != 0 {
		t.Errorf("GOVC-REPRODUCED: limit 0 returned %d events (err=%v)", len(got), err)
	}
}

// C06 / buildEventQuery: an empty filter list selects nothing, but an empty Or() adds no condition.
func TestGovcFindingC06NoFilters(t *testing.T) {
	ctx := context.Background()
	db := govcFindingDB(t, "govcf2")
	defer db.Close()
	if err := insertEvents(ctx, db, 1, []*mocrelay.Event{govcFindingEv(1, govcFindingAlice, 1, 1)}); err != nil {
		t.Fatal(err)
	}
	got, err := queryEvent(ctx, db, 1, []*mocrelay.ReqFilter{}, NoLimit)
	if err != nil || len(got) != 0 {
		t.Errorf("GOVC-REPRODUCED: no filter returned %d events (err=%v)", len(got), err)
	}
}

// C06 / getEventKey: an addressable event without d tag (d value "") is a stored event.
func TestGovcFindingC06AddressableWithoutD(t *testing.T) {
	ctx := context.Background()
	db := govcFindingDB(t, "govcf3")
	defer db.Close()
	if err := insertEvents(ctx, db, 1, []*mocrelay.Event{govcFindingEv(9, govcFindingAlice, 30000, 2)}); err != nil {
		t.Fatal(err)
	}
	got, err := queryEvent(ctx, db, 1, []*mocrelay.ReqFilter{{}}, NoLimit)
	if err != nil || len(got) != 1 {
		t.Errorf("GOVC-REPRODUCED: addressable event without d tag was not stored (got %d, err=%v)", len(got), err)
	}
}

// C06 / tombstones: deletion requests whose e / a tags carry extra elements (relay hints) still delete.
func TestGovcFindingC06TombstoneWithRelayHint(t *testing.T) {
	ctx := context.Background()
	db := govcFindingDB(t, "govcf4")
	defer db.Close()
	target := govcFindingEv(1, govcFindingAlice, 1, 1)
	addr := govcFindingEv(6, govcFindingAlice, 30000, 1, mocrelay.Tag{"d", "k"})
	del := govcFindingEv(11, govcFindingAlice, 5, 2, mocrelay.Tag{"e", target.ID, "wss://relay.example"}, mocrelay.Tag{"a", "30000:" + govcFindingAlice + ":k", "wss://relay.example"})
	if err := insertEvents(ctx, db, 1, []*mocrelay.Event{target, addr, del}); err != nil {
		t.Fatal(err)
	}
	got, err := queryEvent(ctx, db, 1, []*mocrelay.ReqFilter{{Kinds: []int64{1, 30000}}}, NoLimit)
	if err != nil || len(got) != 0 {
		t.Errorf("GOVC-REPRODUCED: %d events referenced by e/a tags with a relay hint survived their author's deletion request (err=%v)", len(got), err)
	}
}
