package mocrelay

import "testing"

// Demonstration for finding C11/validNaddr: a tag address kind:pubkey:d is well-formed for ANY d, including a d
// that itself contains ':'; before the fix strings.Split(...) != 3 rejected it (and with it the whole filter/REQ).
func TestGovcFindingC11NaddrColonInD(t *testing.T) {
	pub := "dbf0becf24bf8dd7d779d7fb547e6112964ff042b77a42cc2d8488636eed9f5e"
	for _, a := range []string{"30023:" + pub + ":plain", "30023:" + pub + ":with:colon", "30023:" + pub + ":", "30023:" + pub + ":https://example.com/x"} {
		if !validNaddr(a) {
			t.Errorf("GOVC-REPRODUCED: well-formed address %q rejected", a)
		}
	}
	f := &ReqFilter{Tags: map[string][]string{"a": {"30023:" + pub + ":a:b"}}}
	if !f.Valid() {
		t.Errorf("GOVC-REPRODUCED: filter with a well-formed #a value rejected")
	}
}
