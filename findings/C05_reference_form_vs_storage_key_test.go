package mocrelay

import "testing"

func govcC05ids(c *EventCache) map[string]bool {
	m := map[string]bool{}
	for _, e := range c.Find([]*ReqFilter{{}}) {
		m[e.ID] = true
	}
	return m
}

// Finding C05/e-tag on events with an address: a deletion request references events by id through e tags, but the
// store looks the referenced value up as a STORAGE KEY, which for replaceable/addressable events is the address and
// not the id. The author's own replaceable/addressable event referenced by id therefore survives, and can be
// re-inserted while the deletion request is retained.
func TestGovcFindingC05ETagOnAddressable(t *testing.T) {
	c := NewEventCache(10)
	c.Add(&Event{ID: "addr1", Pubkey: "alice", Kind: 30000, CreatedAt: 1, Tags: []Tag{{"d", "x"}}})
	c.Add(&Event{ID: "repl1", Pubkey: "alice", Kind: 10000, CreatedAt: 1, Tags: []Tag{}})
	c.Add(&Event{ID: "del1", Pubkey: "alice", Kind: 5, CreatedAt: 2, Tags: []Tag{{"e", "addr1"}, {"e", "repl1"}}})
	got := govcC05ids(c)
	if got["addr1"] {
		t.Errorf("GOVC-REPRODUCED: addressable event referenced by id (e tag) in its author's deletion request is still retained")
	}
	if got["repl1"] {
		t.Errorf("GOVC-REPRODUCED: replaceable event referenced by id (e tag) in its author's deletion request is still retained")
	}
}

// Finding C05/tag-type confusion: the value of an a tag is also looked up as a storage key, so ["a", <id>] deletes
// the author's regular event with that id although the request references it neither by id (e tag) nor by address.
func TestGovcFindingC05ATagNamingAnID(t *testing.T) {
	c := NewEventCache(10)
	c.Add(&Event{ID: "reg1", Pubkey: "alice", Kind: 1, CreatedAt: 1, Tags: []Tag{}})
	c.Add(&Event{ID: "del2", Pubkey: "alice", Kind: 5, CreatedAt: 2, Tags: []Tag{{"a", "reg1"}}})
	if !govcC05ids(c)["reg1"] {
		t.Errorf("GOVC-REPRODUCED: regular event removed by a deletion request that references it only through an a tag carrying its id")
	}
}
