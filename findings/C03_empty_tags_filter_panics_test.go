package mocrelay

import "testing"

// Demonstration for finding C03/eventCacheEvsIndex.Find: a filter whose Tags map is non-nil but empty is not a
// full-scan filter (isFullScanReqFilter tested Tags == nil) yet contributes no index key set, so Find indexed
// idMaps[0] of an empty slice and the query panicked instead of answering like the match-everything filter.
func TestGovcFindingC03EmptyTagsFilter(t *testing.T) {
	c := NewEventCache(10)
	c.Add(&Event{ID: "e1", Pubkey: "alice", Kind: 1, CreatedAt: 1, Tags: []Tag{}})
	defer func() {
		if r := recover(); r != nil {
			t.Errorf("GOVC-REPRODUCED: Find with an empty (non-nil) Tags map panicked: %v", r)
		}
	}()
	got := c.Find([]*ReqFilter{{Tags: map[string][]string{}}})
	if len(got) != 1 || got[0].ID != "e1" {
		t.Errorf("GOVC-REPRODUCED: filter without any constraint returned %v, want the retained event", got)
	}
}
