package mocrelay

import "testing"

// Demonstration for finding C04/C05 getEventKey: ephemeral events and addressable events without a d tag all
// got the storage key "", so (a) ephemeral events were stored and served, (b) events of DIFFERENT authors and
// kinds displaced each other, (c) an addressable event without d tag was not keyed by kind:pubkey:"" .
func TestGovcFindingC04EmptyStorageKey(t *testing.T) {
	all := []*ReqFilter{{}}
	ids := func(c *EventCache) map[string]bool {
		m := map[string]bool{}
		for _, e := range c.Find(all) {
			m[e.ID] = true
		}
		return m
	}

	// (a) ephemeral events are never served from storage
	c := NewEventCache(10)
	c.Add(&Event{ID: "eph1", Pubkey: "alice", Kind: 20001, CreatedAt: 1, Tags: []Tag{}})
	if ids(c)["eph1"] {
		t.Errorf("GOVC-REPRODUCED: ephemeral event (kind 20001) is served from storage")
	}

	// (b) authors are isolated: bob's d-less addressable event must not displace alice's
	c = NewEventCache(10)
	c.Add(&Event{ID: "a1", Pubkey: "alice", Kind: 30000, CreatedAt: 1, Tags: []Tag{}})
	c.Add(&Event{ID: "b1", Pubkey: "bob", Kind: 30001, CreatedAt: 2, Tags: []Tag{}})
	if got := ids(c); !got["a1"] || !got["b1"] {
		t.Errorf("GOVC-REPRODUCED: bob's event displaced alice's (different author, different kind): retained %v", got)
	}

	// (c) an older event of another address is reported as duplicate
	c = NewEventCache(10)
	c.Add(&Event{ID: "a2", Pubkey: "alice", Kind: 30000, CreatedAt: 5, Tags: []Tag{}})
	if !c.Add(&Event{ID: "b2", Pubkey: "bob", Kind: 30000, CreatedAt: 4, Tags: []Tag{}}) {
		t.Errorf("GOVC-REPRODUCED: bob's first event of his own address rejected because alice holds a newer d-less event")
	}

	// d-less addressable == d "" (NIP-01): a newer version with an explicit empty d replaces it
	c = NewEventCache(10)
	c.Add(&Event{ID: "a3", Pubkey: "alice", Kind: 30000, CreatedAt: 1, Tags: []Tag{}})
	c.Add(&Event{ID: "a4", Pubkey: "alice", Kind: 30000, CreatedAt: 2, Tags: []Tag{{"d", ""}}})
	if got := ids(c); got["a3"] || !got["a4"] {
		t.Errorf("GOVC-REPRODUCED: two versions of address 30000:alice: retained together: %v", got)
	}
}
