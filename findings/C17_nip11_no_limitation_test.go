package mocrelay

import "testing"

// Demonstration for finding C17/BuildMiddlewareFromNIP11: a NIP-11 document without a limitation
// block must give the identity chain (property C17); before the fix it panicked with a nil dereference.
func TestGovcFindingC17NoLimitation(t *testing.T) {
	h := NewDefaultHandler()
	got := BuildMiddlewareFromNIP11(&NIP11{Name: "x"})(h)
	if got != h {
		t.Fatalf("chain for a document without limitation block is not the identity")
	}
}
