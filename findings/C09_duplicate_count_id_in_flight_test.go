package mocrelay

import (
	"context"
	"testing"
	"time"
)

// Demonstration for the known finding C09/SetSubID (COUNT): two COUNT requests with the same subscription id in
// flight at the same time are answered by ONE COUNT reply instead of two.
func TestGovcFindingC09DuplicateCountIDInFlight(t *testing.T) {
	child := func() Handler {
		return HandlerFunc(func(ctx context.Context, send chan<- ServerMsg, recv <-chan ClientMsg) error {
			n := 0
			for {
				select {
				case <-ctx.Done():
					return ctx.Err()
				case m, ok := <-recv:
					if !ok {
						return ErrRecvClosed
					}
					if cm, ok := m.(*ClientCountMsg); ok {
						n++
						if n == 2 {
							for i := 0; i < 2; i++ {
								sendCtx(ctx, send, ServerMsg(NewServerCountMsg(cm.SubscriptionID, 7, nil)))
							}
						}
					}
				}
			}
		})
	}
	h := NewMergeHandler(child(), child())
	ctx, cancel := context.WithCancel(context.Background())
	defer cancel()
	recv := make(chan ClientMsg)
	send := make(chan ServerMsg, 16)
	go h.ServeNostr(ctx, send, recv)
	recv <- &ClientCountMsg{SubscriptionID: "s", ReqFilters: []*ReqFilter{{}}}
	recv <- &ClientCountMsg{SubscriptionID: "s", ReqFilters: []*ReqFilter{{}}}
	got := 0
	timeout := time.After(700 * time.Millisecond)
loop:
	for {
		select {
		case m := <-send:
			if _, ok := m.(*ServerCountMsg); ok {
				got++
			}
		case <-timeout:
			break loop
		}
	}
	if got != 2 {
		t.Fatalf("GOVC-REPRODUCED: 2 COUNT requests submitted, %d COUNT replies received", got)
	}
}
