package mocrelay

import "testing"

// Finding C10 / ClientReqMsg.UnmarshalJSON, ClientCountMsg.UnmarshalJSON: a JSON null in the position of a filter
// object was decoded (json's "null is a no-op") into the zero filter, i.e. the match-everything filter, so the
// ill-typed text ["REQ","x",null] was accepted as a valid subscription to every event instead of being rejected.
func TestGovcFindingC10NullFilter(t *testing.T) {
	for _, s := range []string{`["REQ","x",null]`, `["REQ","x",{"kinds":[1]},null]`, `["COUNT","x",null]`} {
		m, err := ParseClientMsg([]byte(s))
		if err == nil {
			t.Errorf("GOVC-REPRODUCED: %s decoded without error to %#v (valid=%v): a null filter became the match-everything filter", s, m, ValidClientMsg(m))
		}
	}
	// well-formed messages still decode
	for _, s := range []string{`["REQ","x",{}]`, `["COUNT","x",{"kinds":[1]}]`} {
		if _, err := ParseClientMsg([]byte(s)); err != nil {
			t.Errorf("well-formed %s rejected: %v", s, err)
		}
	}
}
