package prometheus

import (
	"context"
	"fmt"
	"testing"

	"github.com/high-moctane/mocrelay"
	"github.com/prometheus/client_golang/prometheus"
)

// Bounded stand-in for C19 "the exported values equal reality": the contracts of the counters speak about gauge and
// counter *objects*; under which metric name and label an object is registered (newSimplePrometheusMiddlewareBase)
// is data for the Prometheus library. A scripted pair of sessions drives the real middleware base; after every step
// every exported series (read back through Registry.Gather) is compared with a model of what happened.
func TestGovcBoundedPrometheusNames(t *testing.T) {
	reg := prometheus.NewRegistry()
	m := newSimplePrometheusMiddlewareBase(reg)
	want := map[string]float64{}
	evals := 0
	check := func(step string) {
		mfs, err := reg.Gather()
		if err != nil {
			fmt.Printf("GOVC-BOUNDED-FAIL gather: %v\n", err)
			t.FailNow()
		}
		got := map[string]float64{}
		for _, mf := range mfs {
			for _, mt := range mf.GetMetric() {
				key := mf.GetName()
				for _, l := range mt.GetLabel() {
					key += "{" + l.GetName() + "=" + l.GetValue() + "}"
				}
				switch {
				case mt.GetGauge() != nil:
					got[key] = mt.GetGauge().GetValue()
				case mt.GetCounter() != nil:
					got[key] = mt.GetCounter().GetValue()
				}
			}
		}
		for k, v := range want {
			evals++
			if got[k] != v {
				fmt.Printf("GOVC-BOUNDED-FAIL after %s: %s = %v, want %v (all series: %v)\n", step, k, got[k], v, got)
				t.FailNow()
			}
		}
		for k, v := range got {
			if _, ok := want[k]; !ok && v != 0 && k != "mocrelay_req_response_seconds" {
				fmt.Printf("GOVC-BOUNDED-FAIL after %s: unexpected series %s = %v\n", step, k, v)
				t.FailNow()
			}
		}
	}
	want["mocrelay_connection_count"] = 0
	want["mocrelay_req_count"] = 0
	check("construction")
	ctx1, _ := m.ServeNostrStart(context.Background())
	want["mocrelay_connection_count"]++
	check("start 1")
	ctx2, _ := m.ServeNostrStart(context.Background())
	want["mocrelay_connection_count"]++
	check("start 2")
	ev := func(kind int64) *mocrelay.Event { return &mocrelay.Event{ID: "e", Kind: kind} }
	type cstep struct {
		ctx  context.Context
		msg  mocrelay.ClientMsg
		lbl  string
		dreq float64
		kind string
	}
	for i, s := range []cstep{
		{ctx1, &mocrelay.ClientReqMsg{SubscriptionID: "a", ReqFilters: []*mocrelay.ReqFilter{{}}}, "REQ", 1, ""},
		{ctx1, &mocrelay.ClientReqMsg{SubscriptionID: "b", ReqFilters: []*mocrelay.ReqFilter{{}}}, "REQ", 1, ""},
		{ctx1, &mocrelay.ClientReqMsg{SubscriptionID: "a", ReqFilters: []*mocrelay.ReqFilter{{}}}, "REQ", 0, ""},
		{ctx2, &mocrelay.ClientReqMsg{SubscriptionID: "a", ReqFilters: []*mocrelay.ReqFilter{{}}}, "REQ", 1, ""},
		{ctx1, &mocrelay.ClientEventMsg{Event: ev(1)}, "EVENT", 0, "1"},
		{ctx2, &mocrelay.ClientEventMsg{Event: ev(30023)}, "EVENT", 0, "30023"},
		{ctx1, &mocrelay.ClientCloseMsg{SubscriptionID: "a"}, "CLOSE", -1, ""},
		{ctx1, &mocrelay.ClientCloseMsg{SubscriptionID: "zz"}, "CLOSE", 0, ""},
		{ctx2, &mocrelay.ClientCountMsg{SubscriptionID: "c", ReqFilters: []*mocrelay.ReqFilter{{}}}, "COUNT", 0, ""},
		{ctx2, &mocrelay.ClientAuthMsg{Event: ev(22242)}, "AUTH", 0, ""},
	} {
		m.ServeNostrClientMsg(s.ctx, s.msg)
		want["mocrelay_recv_msg_total{type="+s.lbl+"}"]++
		want["mocrelay_req_count"] += s.dreq
		if s.kind != "" {
			want["mocrelay_recv_event_total{kind="+s.kind+"}"]++
		}
		check(fmt.Sprintf("client step %d (%s)", i, s.lbl))
	}
	type sstep struct {
		ctx  context.Context
		msg  mocrelay.ServerMsg
		lbl  string
		dreq float64
	}
	for i, s := range []sstep{
		{ctx1, &mocrelay.ServerEOSEMsg{SubscriptionID: "b"}, "EOSE", 0},
		{ctx1, &mocrelay.ServerEventMsg{SubscriptionID: "b", Event: ev(1)}, "EVENT", 0},
		{ctx1, &mocrelay.ServerOKMsg{EventID: "e", Accepted: true}, "OK", 0},
		{ctx2, &mocrelay.ServerNoticeMsg{Message: "n"}, "NOTICE", 0},
		{ctx2, &mocrelay.ServerCountMsg{SubscriptionID: "c"}, "COUNT", 0},
		{ctx2, &mocrelay.ServerAuthMsg{Challenge: "x"}, "AUTH", 0},
		{ctx1, &mocrelay.ServerClosedMsg{SubscriptionID: "b"}, "CLOSED", -1},
		{ctx1, &mocrelay.ServerClosedMsg{SubscriptionID: "b"}, "CLOSED", 0},
	} {
		m.ServeNostrServerMsg(s.ctx, s.msg)
		want["mocrelay_send_msg_total{type="+s.lbl+"}"]++
		want["mocrelay_req_count"] += s.dreq
		check(fmt.Sprintf("server step %d (%s)", i, s.lbl))
	}
	m.ServeNostrEnd(ctx1)
	want["mocrelay_connection_count"]--
	check("end 1")
	m.ServeNostrEnd(ctx2)
	want["mocrelay_connection_count"]--
	want["mocrelay_req_count"]-- // subscription a of session 2 was still open
	check("end 2")
	if want["mocrelay_connection_count"] != 0 || want["mocrelay_req_count"] != 0 {
		t.Fatalf("model error")
	}
	fmt.Printf("GOVC-BOUNDED evaluations=%d\n", evals)
}
