package sqlite

import (
	"context"
	"database/sql"
	"fmt"
	"os"
	"path/filepath"
	"reflect"
	"sort"
	"testing"

	"github.com/high-moctane/mocrelay"
)

// Shared by the bounded stand-ins for C06 (query = filter specification over stored, live events) and C14
// (idempotent batches, survival of close/reopen). SQL execution is outside contracts: these run the real SQLite.

func govcHex(n int, width int) string { return fmt.Sprintf("%0*x", width, n) }

var (
	govcAlice = govcHex(0xa11ce, 64)
	govcBob   = govcHex(0xb0b, 64)
)

func govcEv(n int, pk string, kind int64, at int64, tags ...mocrelay.Tag) *mocrelay.Event {
	if tags == nil {
		tags = []mocrelay.Tag{}
	}
	return &mocrelay.Event{ID: govcHex(n, 64), Pubkey: pk, Kind: kind, CreatedAt: at, Tags: tags,
		Content: fmt.Sprintf("c%d é世\U0001F600 \"q\" \\ \n", n), Sig: govcHex(n*7+1, 128)}
}

func govcUniverse() []*mocrelay.Event {
	id := func(n int) string { return govcHex(n, 64) }
	return []*mocrelay.Event{
		govcEv(1, govcAlice, 1, 1, mocrelay.Tag{"t", "x"}),
		govcEv(2, govcAlice, 1, 2, mocrelay.Tag{"t", "y"}, mocrelay.Tag{"p", govcBob, "wss://hint"}),
		govcEv(3, govcBob, 1, 2, mocrelay.Tag{"t", "x"}),
		govcEv(4, govcAlice, 10000, 1),
		govcEv(5, govcAlice, 10000, 3, mocrelay.Tag{"t", "x"}),
		govcEv(6, govcAlice, 30000, 1, mocrelay.Tag{"d", "k"}),
		govcEv(7, govcAlice, 30000, 2, mocrelay.Tag{"d", "k"}, mocrelay.Tag{"t", "y"}),
		govcEv(8, govcBob, 30000, 2, mocrelay.Tag{"d", "k"}),
		govcEv(9, govcAlice, 30000, 2),
		govcEv(10, govcAlice, 20001, 2, mocrelay.Tag{"t", "x"}),
		govcEv(11, govcAlice, 5, 2, mocrelay.Tag{"e", id(1), "wss://relay.example"}),
		govcEv(12, govcBob, 5, 3, mocrelay.Tag{"e", id(1)}, mocrelay.Tag{"e", id(3)}),
		govcEv(13, govcAlice, 5, 3, mocrelay.Tag{"a", "30000:" + govcAlice + ":k", "wss://relay.example"}),
		govcEv(14, govcAlice, 5, 1, mocrelay.Tag{"a", "30000:" + govcAlice + ":k"}),
		// several values of one tag name on one event (a tag condition listing both must still count it once)
		govcEv(15, govcBob, 1, 3, mocrelay.Tag{"t", "x"}, mocrelay.Tag{"t", "y"}, mocrelay.Tag{"t", "x"}),
		// a deletion request naming the same target twice, and a second request of the same author naming a target
		// that request 11 names too (the tombstone rows collide: the insert must tolerate it)
		govcEv(16, govcAlice, 5, 4, mocrelay.Tag{"e", id(1)}, mocrelay.Tag{"e", id(1)}, mocrelay.Tag{"a", "30000:" + govcAlice + ":k"}, mocrelay.Tag{"a", "30000:" + govcAlice + ":k"}),
	}
}

func govcFilterLists() [][]*mocrelay.ReqFilter {
	i64 := func(v int64) *int64 { return &v }
	id := func(n int) string { return govcHex(n, 64) }
	single := []*mocrelay.ReqFilter{
		{},
		{IDs: []string{id(1), id(7)}},
		{Authors: []string{govcAlice}},
		{Authors: []string{govcBob}, Limit: i64(1)},
		{Kinds: []int64{1, 5}},
		{Kinds: []int64{30000}, Authors: []string{govcAlice}},
		{Tags: map[string][]string{"t": {"x"}}},
		{Tags: map[string][]string{"t": {"x", "y"}, "p": {govcBob}}},
		{Tags: map[string][]string{"e": {id(1)}}, Limit: i64(1)},
		{Since: i64(2)},
		{Until: i64(2), Limit: i64(2)},
		{Limit: i64(0)},
		{Limit: i64(1)},
		{Authors: []string{govcAlice}, Limit: i64(2)},
		{Kinds: []int64{1}, Since: i64(2), Limit: i64(1)},
		{Tags: map[string][]string{"t": {"x", "y"}}, Limit: i64(2)},
		{Tags: map[string][]string{"t": {"x", "y"}}, Limit: i64(1)},
	}
	var lists [][]*mocrelay.ReqFilter
	for _, f := range single {
		lists = append(lists, []*mocrelay.ReqFilter{f})
	}
	for i := range single {
		j := (i*7 + 3) % len(single)
		lists = append(lists, []*mocrelay.ReqFilter{single[i], single[j]})
	}
	lists = append(lists, []*mocrelay.ReqFilter{})
	return lists
}

type govcClass int

func govcClassOf(k int64) govcClass {
	switch {
	case k == 0 || k == 3 || (10000 <= k && k < 20000):
		return 1 // replaceable
	case 20000 <= k && k < 30000:
		return 2 // ephemeral
	case 30000 <= k && k < 40000:
		return 3 // addressable
	}
	return 0
}

func govcDVal(e *mocrelay.Event) string {
	for _, t := range e.Tags {
		if len(t) >= 1 && t[0] == "d" {
			if len(t) >= 2 {
				return t[1]
			}
			return ""
		}
	}
	return ""
}

func govcAddr(e *mocrelay.Event) string {
	switch govcClassOf(e.Kind) {
	case 1:
		return fmt.Sprintf("%d:%s", e.Kind, e.Pubkey)
	case 3:
		return fmt.Sprintf("%d:%s:%s", e.Kind, e.Pubkey, govcDVal(e))
	}
	return "id:" + e.ID
}

// govcLive: the specification of "stored, live events" after inserting hist (flattened, in order).
func govcLive(hist []*mocrelay.Event) []*mocrelay.Event {
	stored := map[string]*mocrelay.Event{}
	var order []string
	for _, e := range hist {
		if govcClassOf(e.Kind) == 2 {
			continue
		}
		a := govcAddr(e)
		old, ok := stored[a]
		if !ok {
			stored[a] = e
			order = append(order, a)
		} else if old.ID != e.ID && old.CreatedAt < e.CreatedAt {
			stored[a] = e
		}
	}
	deleted := func(x *mocrelay.Event) bool {
		for _, d := range hist {
			if d.Kind != 5 || d.Pubkey != x.Pubkey {
				continue
			}
			for _, t := range d.Tags {
				if len(t) < 2 {
					continue
				}
				if t[0] == "e" && t[1] == x.ID {
					return true
				}
				if t[0] == "a" && govcClassOf(x.Kind) == 3 && t[1] == govcAddr(x) {
					return true
				}
			}
		}
		return false
	}
	var live []*mocrelay.Event
	for _, a := range order {
		if e := stored[a]; !deleted(e) {
			live = append(live, e)
		}
	}
	return live
}

func govcMatch(f *mocrelay.ReqFilter, e *mocrelay.Event) bool {
	in := func(xs []string, v string) bool {
		for _, x := range xs {
			if x == v {
				return true
			}
		}
		return false
	}
	if f.IDs != nil && !in(f.IDs, e.ID) {
		return false
	}
	if f.Authors != nil && !in(f.Authors, e.Pubkey) {
		return false
	}
	if f.Kinds != nil {
		ok := false
		for _, k := range f.Kinds {
			ok = ok || k == e.Kind
		}
		if !ok {
			return false
		}
	}
	for name, vals := range f.Tags {
		ok := false
		for _, tg := range e.Tags {
			v := ""
			if len(tg) > 1 {
				v = tg[1]
			}
			if len(tg) > 0 && tg[0] == name && in(vals, v) {
				ok = true
			}
		}
		if !ok {
			return false
		}
	}
	if f.Since != nil && e.CreatedAt < *f.Since {
		return false
	}
	if f.Until != nil && e.CreatedAt > *f.Until {
		return false
	}
	return true
}

// govcCheckAnswer compares an answer with the specification (ties at a limit cut may go either way).
func govcCheckAnswer(live []*mocrelay.Event, fl []*mocrelay.ReqFilter, got []*mocrelay.Event) string {
	byID := map[string]*mocrelay.Event{}
	for _, e := range live {
		byID[e.ID] = e
	}
	seen := map[string]bool{}
	for i, e := range got {
		if seen[e.ID] {
			return "duplicate " + e.ID[56:]
		}
		seen[e.ID] = true
		if i > 0 && got[i-1].CreatedAt < e.CreatedAt {
			return "not in non-increasing created_at order"
		}
		want, ok := byID[e.ID]
		if !ok {
			return "returned " + e.ID[56:] + " which is not a stored, live event"
		}
		if !reflect.DeepEqual(want, e) {
			return fmt.Sprintf("event %s differs from what was inserted: got %+v want %+v", e.ID[56:], e, want)
		}
	}
	allowed := map[string]bool{}
	for _, f := range fl {
		var m []*mocrelay.Event
		for _, e := range live {
			if govcMatch(f, e) {
				m = append(m, e)
			}
		}
		sort.SliceStable(m, func(i, j int) bool { return m[i].CreatedAt > m[j].CreatedAt })
		n := len(m)
		if f.Limit != nil && int(*f.Limit) < n {
			n = int(*f.Limit)
		}
		if n <= 0 {
			continue
		}
		cut := m[n-1].CreatedAt
		have := 0
		for _, e := range m {
			if e.CreatedAt >= cut {
				allowed[e.ID] = true
			}
			if e.CreatedAt > cut && !seen[e.ID] {
				return fmt.Sprintf("%s (one of the %d newest matches of a filter) missing", e.ID[56:], n)
			}
			if seen[e.ID] {
				have++
			}
		}
		if have < n {
			return fmt.Sprintf("only %d of the %d newest matches of a filter returned", have, n)
		}
	}
	for _, e := range got {
		if !allowed[e.ID] {
			return e.ID[56:] + " returned but not among the limit newest matches of any filter"
		}
	}
	return ""
}

var govcDBSeq int

func govcOpen(t *testing.T, dsn string) *sql.DB {
	db, err := sql.Open("sqlite3", dsn)
	if err != nil {
		t.Fatalf("open: %v", err)
	}
	db.SetMaxOpenConns(1)
	if err := Migrate(context.Background(), db); err != nil {
		t.Fatalf("migrate: %v", err)
	}
	return db
}

func govcMem(t *testing.T) *sql.DB {
	govcDBSeq++
	return govcOpen(t, fmt.Sprintf("file:govc%d?mode=memory&cache=shared", govcDBSeq))
}

func govcName(batches [][]*mocrelay.Event) string {
	s := ""
	for _, b := range batches {
		s += "["
		for i, e := range b {
			if i > 0 {
				s += ","
			}
			s += fmt.Sprintf("%x", e.ID[60:])
			s = s[:len(s)-len(fmt.Sprintf("%x", e.ID[60:]))] + e.ID[61:]
		}
		s += "]"
	}
	return s
}

func govcFmtFilters(fl []*mocrelay.ReqFilter) string {
	s := "["
	for _, f := range fl {
		s += "{"
		if f.IDs != nil {
			s += fmt.Sprintf("ids=%d ", len(f.IDs))
		}
		if f.Authors != nil {
			s += fmt.Sprintf("authors=%d ", len(f.Authors))
		}
		if f.Kinds != nil {
			s += fmt.Sprintf("kinds=%v ", f.Kinds)
		}
		if f.Tags != nil {
			s += fmt.Sprintf("tags=%d ", len(f.Tags))
		}
		if f.Since != nil {
			s += fmt.Sprintf("since=%d ", *f.Since)
		}
		if f.Until != nil {
			s += fmt.Sprintf("until=%d ", *f.Until)
		}
		if f.Limit != nil {
			s += fmt.Sprintf("limit=%d ", *f.Limit)
		}
		s += "}"
	}
	return s + "]"
}

// govcSplits: the ways a 1..3 event history is cut into batches.
func govcSplits(h []*mocrelay.Event) [][][]*mocrelay.Event {
	out := [][][]*mocrelay.Event{{h}}
	if len(h) >= 2 {
		var one [][]*mocrelay.Event
		for _, e := range h {
			one = append(one, []*mocrelay.Event{e})
		}
		out = append(out, one)
	}
	if len(h) == 3 {
		out = append(out, [][]*mocrelay.Event{{h[0]}, {h[1], h[2]}}, [][]*mocrelay.Event{{h[0], h[1]}, {h[2]}})
	}
	return out
}

func govcHistories(depth int) [][]*mocrelay.Event {
	u := govcUniverse()
	var out [][]*mocrelay.Event
	for i := range u {
		out = append(out, []*mocrelay.Event{u[i]})
		for j := range u {
			out = append(out, []*mocrelay.Event{u[i], u[j]})
			if depth >= 3 && (i*5+j*3)%11 == 0 {
				for k := range u {
					out = append(out, []*mocrelay.Event{u[i], u[j], u[k]})
				}
			}
		}
	}
	return out
}

// TestGovcBoundedSQLiteQuery (C06): after every batch of every bounded history, every filter list.
func TestGovcBoundedSQLiteQuery(t *testing.T) {
	ctx := context.Background()
	lists := govcFilterLists()
	evals, hists := 0, 0
	for _, h := range govcHistories(3) {
		for _, batches := range govcSplits(h) {
			hists++
			db := govcMem(t)
			var flat []*mocrelay.Event
			for bi, b := range batches {
				if err := insertEvents(ctx, db, 7, b); err != nil {
					fmt.Printf("GOVC-BOUNDED-FAIL history=%s: insert failed: %v\n", govcName(batches), err)
					t.FailNow()
				}
				flat = append(flat, b...)
				live := govcLive(flat)
				for _, fl := range lists {
					evals++
					got, err := queryEvent(ctx, db, 7, fl, NoLimit)
					if err != nil {
						fmt.Printf("GOVC-BOUNDED-FAIL history=%s after batch %d filters=%s: query failed: %v\n", govcName(batches), bi+1, govcFmtFilters(fl), err)
						t.FailNow()
					}
					if msg := govcCheckAnswer(live, fl, got); msg != "" {
						fmt.Printf("GOVC-BOUNDED-FAIL history=%s after batch %d filters=%s: %s\n", govcName(batches), bi+1, govcFmtFilters(fl), msg)
						t.FailNow()
					}
				}
			}
			db.Close()
		}
	}
	fmt.Printf("GOVC-BOUNDED evaluations=%d histories=%d\n", evals, hists)
}

// TestGovcBoundedSQLiteIdempotentReopen (C14): inserting a batch again changes no answer; closing and reopening the
// database file between batches changes no answer, and replacement/deletion keep working across the restart.
func TestGovcBoundedSQLiteIdempotentReopen(t *testing.T) {
	ctx := context.Background()
	lists := govcFilterLists()
	dir, err := os.MkdirTemp("", "govc-sqlite")
	if err != nil {
		t.Fatal(err)
	}
	defer os.RemoveAll(dir)
	answers := func(db *sql.DB, seed uint32) []string {
		var out []string
		for _, fl := range lists {
			got, err := queryEvent(ctx, db, seed, fl, NoLimit)
			if err != nil {
				t.Fatalf("query: %v", err)
			}
			s := ""
			for _, e := range got {
				s += e.ID[56:] + ","
			}
			out = append(out, s)
		}
		return out
	}
	evals := 0
	for hi, h := range govcHistories(2) {
		for _, batches := range govcSplits(h) {
			// reference: one database, each batch once
			ref := govcMem(t)
			for _, b := range batches {
				if err := insertEvents(ctx, ref, 7, b); err != nil {
					{
						fmt.Printf("GOVC-BOUNDED-FAIL history=%s: a single insertion of the batches failed: %v\n", govcName(batches), err)
						t.FailNow()
					}
				}
			}
			want := answers(ref, 7)
			ref.Close()
			// (a) every batch inserted twice in a row
			db := govcMem(t)
			for _, b := range batches {
				for k := 0; k < 2; k++ {
					if err := insertEvents(ctx, db, 7, b); err != nil {
						fmt.Printf("GOVC-BOUNDED-FAIL history=%s: inserting a batch the %d. time failed: %v\n", govcName(batches), k+1, err)
						t.FailNow()
					}
				}
			}
			if got := answers(db, 7); !reflect.DeepEqual(got, want) {
				fmt.Printf("GOVC-BOUNDED-FAIL history=%s: answers differ after inserting every batch twice\n", govcName(batches))
				t.FailNow()
			}
			db.Close()
			evals++
			// (b) file database closed and reopened between batches (seed loaded from the file); the reference uses the
			//     same seed, because the order among equal timestamps depends on it
			if hi%4 == 0 {
				path := filepath.Join(dir, fmt.Sprintf("h%d_%d.db", hi, len(batches)))
				var seed uint32
				for _, b := range batches {
					fdb := govcOpen(t, "file:"+path)
					sd, err := setOrLoadXXHashSeed(ctx, fdb)
					if err != nil {
						t.Fatalf("seed: %v", err)
					}
					seed = sd
					if err := insertEvents(ctx, fdb, seed, b); err != nil {
						{
							fmt.Printf("GOVC-BOUNDED-FAIL history=%s: a single insertion of the batches failed: %v\n", govcName(batches), err)
							t.FailNow()
						}
					}
					fdb.Close()
				}
				fdb := govcOpen(t, "file:"+path)
				sd, err := setOrLoadXXHashSeed(ctx, fdb)
				if err != nil {
					t.Fatalf("seed: %v", err)
				}
				if sd != seed {
					fmt.Printf("GOVC-BOUNDED-FAIL history=%s: the hash seed changed across reopen (%d -> %d)\n", govcName(batches), seed, sd)
					t.FailNow()
				}
				ref2 := govcMem(t)
				for _, b := range batches {
					if err := insertEvents(ctx, ref2, seed, b); err != nil {
						{
							fmt.Printf("GOVC-BOUNDED-FAIL history=%s: a single insertion of the batches failed: %v\n", govcName(batches), err)
							t.FailNow()
						}
					}
				}
				want2 := answers(ref2, seed)
				ref2.Close()
				if got := answers(fdb, seed); !reflect.DeepEqual(got, want2) {
					fmt.Printf("GOVC-BOUNDED-FAIL history=%s: answers differ when the database is closed and reopened between batches\n", govcName(batches))
					t.FailNow()
				}
				fdb.Close()
				os.Remove(path)
				evals++
			}
		}
	}
	fmt.Printf("GOVC-BOUNDED evaluations=%d\n", evals)
}

// TestGovcBoundedSQLiteBoundaryKinds (C06): a second, small universe for what the first one does not contain - the
// boundaries of the kind classes (0, 3, 9999/10000, 19999/20000, 29999/30000, 39999/40000), two versions of every
// replaceable/addressable address, and tag names in upper case (admitted by the filter grammar, C11). All histories
// of up to 2 insertions with both batch splits, queried by the match-everything filter, per kind and per tag.
func TestGovcBoundedSQLiteBoundaryKinds(t *testing.T) {
	ctx := context.Background()
	kinds := []int64{0, 3, 1, 4, 9999, 10000, 19999, 20000, 29999, 30000, 39999, 40000}
	var u []*mocrelay.Event
	n := 100
	for _, k := range kinds {
		for v := int64(1); v <= 2; v++ {
			n++
			tags := []mocrelay.Tag{{"E", "up"}}
			if govcClassOf(k) == 3 {
				tags = append(tags, mocrelay.Tag{"d", "k"})
			}
			if v == 2 {
				tags = append(tags, mocrelay.Tag{"P", "Up2"})
			}
			u = append(u, govcEv(n, govcAlice, k, v, tags...))
		}
	}
	i64 := func(v int64) *int64 { return &v }
	lists := [][]*mocrelay.ReqFilter{
		{{}},
		{{Kinds: kinds}},
		{{Kinds: []int64{0, 3}}},
		{{Tags: map[string][]string{"E": {"up"}}}},
		{{Tags: map[string][]string{"P": {"Up2"}}, Limit: i64(3)}},
		{{Tags: map[string][]string{"e": {"up"}}}},
		{{Kinds: []int64{39999, 40000, 19999, 20000}}, {Kinds: []int64{0}, Limit: i64(1)}},
	}
	evals, hists := 0, 0
	var histories [][]*mocrelay.Event
	for i := range u {
		histories = append(histories, []*mocrelay.Event{u[i]})
		for j := range u {
			histories = append(histories, []*mocrelay.Event{u[i], u[j]})
		}
	}
	for _, h := range histories {
		for _, batches := range govcSplits(h) {
			hists++
			db := govcMem(t)
			var flat []*mocrelay.Event
			for bi, b := range batches {
				if err := insertEvents(ctx, db, 7, b); err != nil {
					fmt.Printf("GOVC-BOUNDED-FAIL history=%s: insert failed: %v\n", govcName(batches), err)
					t.FailNow()
				}
				flat = append(flat, b...)
				live := govcLive(flat)
				for _, fl := range lists {
					evals++
					got, err := queryEvent(ctx, db, 7, fl, NoLimit)
					if err != nil {
						fmt.Printf("GOVC-BOUNDED-FAIL history=%s after batch %d filters=%s: query failed: %v\n", govcName(batches), bi+1, govcFmtFilters(fl), err)
						t.FailNow()
					}
					if msg := govcCheckAnswer(live, fl, got); msg != "" {
						fmt.Printf("GOVC-BOUNDED-FAIL history=%s after batch %d filters=%s: %s\n", govcName(batches), bi+1, govcFmtFilters(fl), msg)
						t.FailNow()
					}
				}
			}
			db.Close()
		}
	}
	fmt.Printf("GOVC-BOUNDED evaluations=%d histories=%d\n", evals, hists)
}
