package mocrelay

import (
	"encoding/json"
	"fmt"
	"net/http/httptest"
	"reflect"
	"testing"
)

// Bounded stand-in for C20 "kind ranges written as single numbers or pairs round-trip through JSON":
// every (From, To) in [-3, 40] x [-3, 40] plus boundary values, through the real Marshal/Unmarshal methods,
// alone and inside a NIP11 document. JSON encoding/decoding is library code outside this verifier's contracts.
func TestGovcBoundedNip11KindRoundTrip(t *testing.T) {
	vals := []int{}
	for i := -3; i <= 40; i++ {
		vals = append(vals, i)
	}
	vals = append(vals, 9999, 10000, 19999, 20000, 29999, 30000, 39999, 40000, 65535, 65536, 1<<31-1, 1<<31, -(1 << 31), 1<<53+1, 1<<62+3)
	n := 0
	for _, a := range vals {
		for _, b := range vals {
			k := Nip11Kind{From: a, To: b}
			raw, err := k.MarshalJSON()
			if err != nil {
				fmt.Printf("GOVC-BOUNDED-FAIL marshal From=%d To=%d: %v\n", a, b, err)
				t.FailNow()
			}
			var back Nip11Kind
			if err := back.UnmarshalJSON(raw); err != nil || back != k {
				fmt.Printf("GOVC-BOUNDED-FAIL From=%d To=%d json=%s back=%+v err=%v\n", a, b, raw, back, err)
				t.FailNow()
			}
			doc := NIP11{Name: "x", Retention: &NIP11Retention{Kinds: []*Nip11Kind{&k}}}
			dj, err := json.Marshal(&doc)
			var doc2 NIP11
			if err != nil || json.Unmarshal(dj, &doc2) != nil || doc2.Retention == nil || len(doc2.Retention.Kinds) != 1 || *doc2.Retention.Kinds[0] != k {
				fmt.Printf("GOVC-BOUNDED-FAIL document round trip From=%d To=%d json=%s\n", a, b, dj)
				t.FailNow()
			}
			n++
		}
	}
	fmt.Printf("GOVC-BOUNDED evaluations=%d\n", n)
}

// Bounded stand-in for C20 "the information document round-trips through JSON for every configuration / is equal
// to the configuration": every field of the document (found by reflection, so that fields added later are covered)
// is given a distinct non-zero value - all at once and one field at a time - and the document must come back equal
// from json.Marshal/Unmarshal and from the body served by NIP11.ServeHTTP. Struct tags are data for encoding/json
// (a duplicated or misspelt key silently drops a field); they cannot be put under a contract of this verifier.
func govcFill(v reflect.Value, seed *int, only int, idx *int) {
	switch v.Kind() {
	case reflect.Ptr:
		n := reflect.New(v.Type().Elem())
		before := *idx
		govcFill(n.Elem(), seed, only, idx)
		if only < 0 || (before <= only && only < *idx) {
			v.Set(n)
		}
	case reflect.Struct:
		if v.Type() == reflect.TypeOf(Nip11Kind{}) {
			take := only < 0 || *idx == only
			*idx++
			if take {
				*seed += 2
				v.Set(reflect.ValueOf(Nip11Kind{From: *seed, To: *seed + 1}))
			}
			return
		}
		for i := 0; i < v.NumField(); i++ {
			govcFill(v.Field(i), seed, only, idx)
		}
	case reflect.Slice:
		take := only < 0 || *idx == only
		s := reflect.MakeSlice(v.Type(), 2, 2)
		for i := 0; i < 2; i++ {
			sub := -1
			ii := 0
			govcFill(s.Index(i), seed, sub, &ii)
		}
		*idx++
		if take {
			v.Set(s)
		}
	default:
		take := only < 0 || *idx == only
		*idx++
		if !take {
			return
		}
		*seed++
		switch v.Kind() {
		case reflect.String:
			v.SetString(fmt.Sprintf("v%d", *seed))
		case reflect.Bool:
			v.SetBool(true)
		case reflect.Int, reflect.Int64, reflect.Int32:
			v.SetInt(int64(*seed))
		case reflect.Uint, reflect.Uint64, reflect.Uint32:
			v.SetUint(uint64(*seed))
		case reflect.Float64:
			v.SetFloat(float64(*seed))
		}
	}
}

func TestGovcBoundedNip11DocRoundTrip(t *testing.T) {
	count := 0
	{
		var probe NIP11
		seed := 0
		govcFill(reflect.ValueOf(&probe).Elem(), &seed, -1, &count)
	}
	n := 0
	for only := -1; only < count; only++ {
		var doc NIP11
		seed, idx := 0, 0
		govcFill(reflect.ValueOf(&doc).Elem(), &seed, only, &idx)
		raw, err := json.Marshal(&doc)
		var back NIP11
		if err != nil || json.Unmarshal(raw, &back) != nil || !reflect.DeepEqual(doc, back) {
			fmt.Printf("GOVC-BOUNDED-FAIL NIP11 document does not round-trip (field set %d of %d): json=%s\n", only, count, raw)
			t.FailNow()
		}
		rec := httptest.NewRecorder()
		req := httptest.NewRequest("GET", "/", nil)
		req.Header.Set("Accept", "application/nostr+json")
		doc.ServeHTTP(rec, req)
		var served NIP11
		if rec.Code != 200 || json.Unmarshal(rec.Body.Bytes(), &served) != nil || !reflect.DeepEqual(doc, served) {
			fmt.Printf("GOVC-BOUNDED-FAIL served NIP11 document differs from the configuration (field set %d of %d): status=%d body=%s\n", only, count, rec.Code, rec.Body.String())
			t.FailNow()
		}
		n++
	}
	fmt.Printf("GOVC-BOUNDED evaluations=%d\n", n)
}
