package mocrelay

import (
	"encoding/json"
	"fmt"
	"testing"
)

// Bounded stand-in for C20 "kind ranges written as single numbers or pairs round-trip through JSON":
// every (From, To) in [-3, 40] x [-3, 40] plus boundary values, through the real Marshal/Unmarshal methods,
// alone and inside a NIP11 document. JSON encoding/decoding is library code outside this verifier's contracts.
func TestGovcBoundedNip11KindRoundTrip(t *testing.T) {
	vals := []int{}
	for i := -3; i <= 40; i++ {
		vals = append(vals, i)
	}
	vals = append(vals, 9999, 10000, 19999, 20000, 29999, 30000, 39999, 40000, 65535, 65536, 1<<31-1, 1<<31, -(1 << 31), 1<<53 + 1, 1<<62 + 3)
	n := 0
	for _, a := range vals {
		for _, b := range vals {
			k := Nip11Kind{From: a, To: b}
			raw, err := k.MarshalJSON()
			if err != nil {
				fmt.Printf("GOVC-BOUNDED-FAIL marshal From=%d To=%d: %v\n", a, b, err)
				t.FailNow()
			}
			var back Nip11Kind
			if err := back.UnmarshalJSON(raw); err != nil || back != k {
				fmt.Printf("GOVC-BOUNDED-FAIL From=%d To=%d json=%s back=%+v err=%v\n", a, b, raw, back, err)
				t.FailNow()
			}
			doc := NIP11{Name: "x", Retention: &NIP11Retention{Kinds: []*Nip11Kind{&k}}}
			dj, err := json.Marshal(&doc)
			var doc2 NIP11
			if err != nil || json.Unmarshal(dj, &doc2) != nil || doc2.Retention == nil || len(doc2.Retention.Kinds) != 1 || *doc2.Retention.Kinds[0] != k {
				fmt.Printf("GOVC-BOUNDED-FAIL document round trip From=%d To=%d json=%s\n", a, b, dj)
				t.FailNow()
			}
			n++
		}
	}
	fmt.Printf("GOVC-BOUNDED evaluations=%d\n", n)
}
