package mocrelay

import (
	"bytes"
	"fmt"
	"strconv"
	"testing"
)

// Bounded stand-in for the part of C01 that is not under contract: the ORDER and SEPARATORS of the six members in
// Event.Serialize (the per-character escaping and the string wrapper are proved). Reference serializer written from
// NIP-01, compared byte for byte on generated events: all 256 single-byte strings, multi-byte/astral runes, mixed
// strings, boundary integers, nil/empty/nested tag shapes.
func govcRefEscape(dst []byte, s string) []byte {
	dst = append(dst, '"')
	for i := 0; i < len(s); i++ {
		c := s[i]
		switch {
		case c == '"':
			dst = append(dst, `\"`...)
		case c == '\\':
			dst = append(dst, `\\`...)
		case c == '\n':
			dst = append(dst, `\n`...)
		case c == '\r':
			dst = append(dst, `\r`...)
		case c == '\t':
			dst = append(dst, `\t`...)
		case c == '\b':
			dst = append(dst, `\b`...)
		case c == '\f':
			dst = append(dst, `\f`...)
		case c < 0x20:
			dst = append(dst, fmt.Sprintf(`\u%04x`, c)...)
		default:
			dst = append(dst, c)
		}
	}
	return append(dst, '"')
}

func govcRefSerialize(ev *Event) []byte {
	b := []byte("[0,")
	b = govcRefEscape(b, ev.Pubkey)
	b = append(b, ',')
	b = strconv.AppendInt(b, ev.CreatedAt, 10)
	b = append(b, ',')
	b = strconv.AppendInt(b, ev.Kind, 10)
	b = append(b, ',')
	if ev.Tags == nil {
		b = append(b, "null"...)
	} else {
		b = append(b, '[')
		for i, tag := range ev.Tags {
			if i > 0 {
				b = append(b, ',')
			}
			if tag == nil {
				b = append(b, "null"...)
				continue
			}
			b = append(b, '[')
			for j, e := range tag {
				if j > 0 {
					b = append(b, ',')
				}
				b = govcRefEscape(b, e)
			}
			b = append(b, ']')
		}
		b = append(b, ']')
	}
	b = append(b, ',')
	b = govcRefEscape(b, ev.Content)
	return append(b, ']')
}

func TestGovcBoundedSerializeOrder(t *testing.T) {
	var strs []string
	for c := 0; c < 256; c++ {
		strs = append(strs, string([]byte{byte(c)}))
	}
	strs = append(strs, "", "é世", "\U0001F600", "  ", "<script>&amp;", "a\"b\\c\nd", "\x00\x1f \x7f\xff", "plain text with spaces")
	ints := []int64{0, 1, -1, 5, 65535, 1700000000, 1<<63 - 1, -(1 << 63)}
	tagsets := [][]Tag{nil, {}, {nil}, {{}}, {{"e"}}, {{"e", "x", "y"}, {"p"}}, {{"a", "b"}, nil, {}, {"c"}}}
	evals := 0
	check := func(ev *Event) {
		evals++
		got, err := ev.Serialize()
		want := govcRefSerialize(ev)
		if err != nil || !bytes.Equal(got, want) {
			fmt.Printf("GOVC-BOUNDED-FAIL Serialize(%+v) = %q err=%v, NIP-01 form %q\n", *ev, got, err, want)
			t.FailNow()
		}
	}
	for i, s := range strs {
		check(&Event{Pubkey: s, CreatedAt: ints[i%len(ints)], Kind: ints[(i+3)%len(ints)], Tags: tagsets[i%len(tagsets)], Content: strs[(i*7+1)%len(strs)]})
		check(&Event{Pubkey: "pk", CreatedAt: 1, Kind: 1, Tags: []Tag{{s, strs[(i+5)%len(strs)]}, {"t", s}}, Content: s})
	}
	for _, a := range ints {
		for _, b := range ints {
			for _, tg := range tagsets {
				check(&Event{Pubkey: "p", CreatedAt: a, Kind: b, Tags: tg, Content: "c"})
			}
		}
	}
	fmt.Printf("GOVC-BOUNDED evaluations=%d\n", evals)
}
