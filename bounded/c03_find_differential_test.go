package mocrelay

import (
	"fmt"
	"sort"
	"testing"
)

// Bounded stand-in for the part of C03 that contracts do not reach (exact content, limit and order of a query):
// every history of up to 4 insertions over a 14-event universe (regular, replaceable, addressable with/without d,
// deletion requests by e and a tag, two authors, equal and distinct timestamps), capacities 1..3 and a large one,
// and after every step 60 filter lists, compared against the specification computed from the match-everything
// listing: per filter the limit newest matching retained events (ties at the cut may go either way), merged
// without duplicates, in non-increasing created_at order.
func TestGovcBoundedFindDifferential(t *testing.T) {
	ev := func(id, pk string, kind int64, at int64, tags ...Tag) *Event {
		if tags == nil {
			tags = []Tag{}
		}
		return &Event{ID: id, Pubkey: pk, Kind: kind, CreatedAt: at, Tags: tags}
	}
	universe := []*Event{
		ev("r1", "alice", 1, 1, Tag{"t", "x"}),
		ev("r2", "alice", 1, 2, Tag{"t", "y"}, Tag{"p", "bob"}),
		ev("r3", "bob", 1, 2, Tag{"t", "x"}),
		ev("r4", "bob", 7, 3),
		ev("p1", "alice", 10000, 1),
		ev("p2", "alice", 10000, 3, Tag{"t", "x"}),
		ev("a1", "alice", 30000, 1, Tag{"d", "k"}),
		ev("a2", "alice", 30000, 2, Tag{"d", "k"}, Tag{"t", "y"}),
		ev("a3", "bob", 30000, 2, Tag{"d", "k"}),
		ev("a4", "alice", 30000, 2),
		ev("d1", "alice", 5, 2, Tag{"e", "r1"}),
		ev("d2", "bob", 5, 3, Tag{"e", "r1"}, Tag{"e", "r3"}),
		ev("d3", "alice", 5, 3, Tag{"a", "30000:alice:k"}),
		ev("d4", "alice", 5, 1, Tag{"e", "d1"}),
	}
	i64 := func(v int64) *int64 { return &v }
	single := []*ReqFilter{
		{},
		{IDs: []string{"r1", "a2"}},
		{IDs: []string{}},
		{Authors: []string{"alice"}},
		{Authors: []string{"bob"}, Limit: i64(1)},
		{Kinds: []int64{1, 5}},
		{Kinds: []int64{30000}, Authors: []string{"alice"}},
		{Tags: map[string][]string{"t": {"x"}}},
		{Tags: map[string][]string{"t": {"x", "y"}, "p": {"bob"}}},
		{Tags: map[string][]string{"e": {"r1"}}, Limit: i64(1)},
		{Since: i64(2)},
		{Until: i64(2), Limit: i64(2)},
		{Since: i64(2), Until: i64(2)},
		{Limit: i64(0)},
		{Limit: i64(1)},
		{Limit: i64(2)},
		{Authors: []string{"alice"}, Limit: i64(2)},
		{Kinds: []int64{1}, Since: i64(2), Limit: i64(1)},
		{Authors: []string{"alice", "bob"}, Kinds: []int64{1, 7, 10000}, Until: i64(2)},
		{IDs: []string{"r2"}, Authors: []string{"bob"}},
	}
	var lists [][]*ReqFilter
	for _, f := range single {
		lists = append(lists, []*ReqFilter{f})
	}
	for i := 0; i < len(single); i += 1 {
		j := (i*7 + 3) % len(single)
		lists = append(lists, []*ReqFilter{single[i], single[j]})
		lists = append(lists, []*ReqFilter{single[i], single[j], single[(j+5)%len(single)]})
	}
	lists = append(lists, []*ReqFilter{})

	match := func(f *ReqFilter, e *Event) bool {
		in := func(xs []string, v string) bool {
			for _, x := range xs {
				if x == v {
					return true
				}
			}
			return false
		}
		if f.IDs != nil && !in(f.IDs, e.ID) {
			return false
		}
		if f.Authors != nil && !in(f.Authors, e.Pubkey) {
			return false
		}
		if f.Kinds != nil {
			ok := false
			for _, k := range f.Kinds {
				ok = ok || k == e.Kind
			}
			if !ok {
				return false
			}
		}
		for name, vals := range f.Tags {
			ok := false
			for _, tg := range e.Tags {
				v := ""
				if len(tg) > 1 {
					v = tg[1]
				}
				if len(tg) > 0 && tg[0] == name && in(vals, v) {
					ok = true
				}
			}
			if !ok {
				return false
			}
		}
		if f.Since != nil && e.CreatedAt < *f.Since {
			return false
		}
		if f.Until != nil && e.CreatedAt > *f.Until {
			return false
		}
		return true
	}

	evals := 0
	check := func(c *EventCache, hist string) bool {
		retained := c.Find([]*ReqFilter{{}})
		for _, fl := range lists {
			evals++
			got := c.Find(fl)
			seen := map[*Event]bool{}
			for i, e := range got {
				if seen[e] {
					fmt.Printf("GOVC-BOUNDED-FAIL history=%s filters=%s: duplicate %s in answer\n", hist, fmtFilters(fl), e.ID)
					return false
				}
				seen[e] = true
				if i > 0 && got[i-1].CreatedAt < e.CreatedAt {
					fmt.Printf("GOVC-BOUNDED-FAIL history=%s filters=%s: answer not in non-increasing created_at order\n", hist, fmtFilters(fl))
					return false
				}
			}
			allowed := map[*Event]bool{}
			for _, f := range fl {
				var m []*Event
				for _, e := range retained {
					if match(f, e) {
						m = append(m, e)
					}
				}
				sort.SliceStable(m, func(i, j int) bool { return m[i].CreatedAt > m[j].CreatedAt })
				n := len(m)
				if f.Limit != nil && int(*f.Limit) < n {
					n = int(*f.Limit)
					if n < 0 {
						n = 0
					}
				}
				if n == 0 {
					continue
				}
				cut := m[n-1].CreatedAt
				must := 0
				for _, e := range m {
					if e.CreatedAt >= cut {
						allowed[e] = true
					}
					if e.CreatedAt > cut && !seen[e] {
						fmt.Printf("GOVC-BOUNDED-FAIL history=%s filters=%s: %s (one of the %d newest matches of a filter) missing\n", hist, fmtFilters(fl), e.ID, n)
						return false
					}
					if seen[e] {
						must++
					}
				}
				if must < n {
					fmt.Printf("GOVC-BOUNDED-FAIL history=%s filters=%s: only %d of the %d newest matches of a filter returned\n", hist, fmtFilters(fl), must, n)
					return false
				}
			}
			for _, e := range got {
				if !allowed[e] {
					fmt.Printf("GOVC-BOUNDED-FAIL history=%s filters=%s: %s returned but not among the limit newest matches of any filter\n", hist, fmtFilters(fl), e.ID)
					return false
				}
			}
		}
		return true
	}

	var rec func(c func() *EventCache, prefix []int, depth int) bool
	histories := 0
	for _, capacity := range []int{1, 2, 3, 100} {
		rec = func(mk func() *EventCache, prefix []int, depth int) bool {
			if depth == 0 {
				return true
			}
			for i := range universe {
				h := append(append([]int{}, prefix...), i)
				c := mk()
				name := fmt.Sprintf("cap%d", capacity)
				for _, k := range h {
					c.Add(universe[k])
					name += "," + universe[k].ID
				}
				histories++
				if !check(c, name) {
					return false
				}
				// prune: full depth only below a sample of prefixes
				if depth > 1 && (len(h) < 2 || (h[0]*5+h[1]*3)%4 == 0) {
					if !rec(mk, h, depth-1) {
						return false
					}
				}
			}
			return true
		}
		if !rec(func() *EventCache { return NewEventCache(capacity) }, nil, 4) {
			t.FailNow()
		}
	}
	fmt.Printf("GOVC-BOUNDED evaluations=%d histories=%d\n", evals, histories)
}

func fmtFilters(fl []*ReqFilter) string {
	s := "["
	for i, f := range fl {
		if i > 0 {
			s += " "
		}
		s += "{"
		if f.IDs != nil {
			s += fmt.Sprintf("ids=%v ", f.IDs)
		}
		if f.Authors != nil {
			s += fmt.Sprintf("authors=%v ", f.Authors)
		}
		if f.Kinds != nil {
			s += fmt.Sprintf("kinds=%v ", f.Kinds)
		}
		if f.Tags != nil {
			s += fmt.Sprintf("tags=%v ", f.Tags)
		}
		if f.Since != nil {
			s += fmt.Sprintf("since=%d ", *f.Since)
		}
		if f.Until != nil {
			s += fmt.Sprintf("until=%d ", *f.Until)
		}
		if f.Limit != nil {
			s += fmt.Sprintf("limit=%d ", *f.Limit)
		}
		s += "}"
	}
	return s + "]"
}
