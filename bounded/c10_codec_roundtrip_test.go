package mocrelay

import (
	"bufio"
	"encoding/json"
	"fmt"
	"os"
	"path/filepath"
	"reflect"
	"testing"
)

// Bounded stand-in for the part of C10 that contracts do not reach (what encoding/json actually produces):
//  (1) every valid and invalid fixture text of testdata/*.jsonl and every single-byte mutation of the valid ones
//      (delete / replace by / insert each character of a 14-letter alphabet at every position, texts up to 400 bytes):
//      decoding never panics, and an accepted text satisfies decode(encode(decode(t))) == decode(t);
//  (2) generated values of every message type, events and filters (strings over an alphabet with quotes, backslash,
//      control characters, <>&, U+2028, multi-byte runes, astral runes; boundary integers; nested tags):
//      decode(encode(v)) == v.
// Decoders are chosen by the file name (type) and, for client messages, additionally through ParseClientMsg.

type govcCodec struct {
	name string
	dec  func(b []byte) (any, error) // returns the decoded value (dereferenced)
}

func govcCodecs() map[string]govcCodec {
	mk := func(name string, f func(b []byte) (any, error)) govcCodec { return govcCodec{name, f} }
	return map[string]govcCodec{
		"clienteventmsgs":  mk("ClientEventMsg", func(b []byte) (any, error) { var v ClientEventMsg; err := v.UnmarshalJSON(b); return v, err }),
		"clientreqmsgs":    mk("ClientReqMsg", func(b []byte) (any, error) { var v ClientReqMsg; err := v.UnmarshalJSON(b); return v, err }),
		"clientclosemsgs":  mk("ClientCloseMsg", func(b []byte) (any, error) { var v ClientCloseMsg; err := v.UnmarshalJSON(b); return v, err }),
		"clientauthmsgs":   mk("ClientAuthMsg", func(b []byte) (any, error) { var v ClientAuthMsg; err := v.UnmarshalJSON(b); return v, err }),
		"clientcountmsgs":  mk("ClientCountMsg", func(b []byte) (any, error) { var v ClientCountMsg; err := v.UnmarshalJSON(b); return v, err }),
		"reqfilter":        mk("ReqFilter", func(b []byte) (any, error) { var v ReqFilter; err := v.UnmarshalJSON(b); return v, err }),
		"events":           mk("Event", func(b []byte) (any, error) { var v Event; err := v.UnmarshalJSON(b); return v, err }),
		"servereosemsgs":   mk("ServerEOSEMsg", func(b []byte) (any, error) { var v ServerEOSEMsg; err := v.UnmarshalJSON(b); return v, err }),
		"servereventmsgs":  mk("ServerEventMsg", func(b []byte) (any, error) { var v ServerEventMsg; err := v.UnmarshalJSON(b); return v, err }),
		"servernoticemsgs": mk("ServerNoticeMsg", func(b []byte) (any, error) { var v ServerNoticeMsg; err := v.UnmarshalJSON(b); return v, err }),
		"serverokmsgs":     mk("ServerOKMsg", func(b []byte) (any, error) { var v ServerOKMsg; err := v.UnmarshalJSON(b); return v, err }),
		"serverauthmsgs":   mk("ServerAuthMsg", func(b []byte) (any, error) { var v ServerAuthMsg; err := v.UnmarshalJSON(b); return v, err }),
		"servercountmsgs":  mk("ServerCountMsg", func(b []byte) (any, error) { var v ServerCountMsg; err := v.UnmarshalJSON(b); return v, err }),
		"serverclosedmsgs": mk("ServerClosedMsg", func(b []byte) (any, error) { var v ServerClosedMsg; err := v.UnmarshalJSON(b); return v, err }),
	}
}

func govcSafeDecode(c govcCodec, b []byte) (v any, err error, panicked any) {
	defer func() {
		if r := recover(); r != nil {
			panicked = r
		}
	}()
	v, err = c.dec(b)
	return
}

func govcEncode(v any) ([]byte, error) { return json.Marshal(v) }

// govcCheckText: no panic; accepted => decode-encode-decode is the identity on the decoded value.
func govcCheckText(c govcCodec, text []byte) string {
	v, err, p := govcSafeDecode(c, text)
	if p != nil {
		return fmt.Sprintf("%s decoder panicked on %q: %v", c.name, text, p)
	}
	if err != nil {
		return ""
	}
	enc, err := govcEncode(v)
	if err != nil {
		return fmt.Sprintf("%s: accepted text %q decodes to a value that cannot be encoded: %v", c.name, text, err)
	}
	v2, err, p := govcSafeDecode(c, enc)
	if p != nil {
		return fmt.Sprintf("%s decoder panicked on its own encoding %q: %v", c.name, enc, p)
	}
	if err != nil {
		return fmt.Sprintf("%s: %q was accepted but its re-encoding %q is rejected: %v", c.name, text, enc, err)
	}
	if !reflect.DeepEqual(v, v2) {
		return fmt.Sprintf("%s: decode(encode(decode(%q))) differs: %+v vs %+v (encoding %q)", c.name, text, v, v2, enc)
	}
	return ""
}

func TestGovcBoundedCodecTexts(t *testing.T) {
	alphabet := []byte{'"', '\\', '[', ']', '{', '}', ',', ':', '0', '-', 'e', 'n', ' ', 0x80}
	codecs := govcCodecs()
	evals := 0
	files, _ := filepath.Glob("testdata/*.jsonl")
	if len(files) == 0 {
		t.Fatal("no fixtures")
	}
	for _, f := range files {
		base := filepath.Base(f)
		var c govcCodec
		valid := false
		for prefix, cc := range codecs {
			if len(base) > len(prefix) && base[:len(prefix)] == prefix && base[len(prefix)] == '_' {
				c = cc
				valid = base[len(prefix)+1:] == "valid.jsonl"
			}
		}
		if c.dec == nil {
			continue
		}
		fh, err := os.Open(f)
		if err != nil {
			t.Fatal(err)
		}
		sc := bufio.NewScanner(fh)
		sc.Buffer(make([]byte, 1<<20), 1<<24)
		for sc.Scan() {
			line := append([]byte(nil), sc.Bytes()...)
			if len(line) == 0 {
				continue
			}
			evals++
			if msg := govcCheckText(c, line); msg != "" {
				fmt.Printf("GOVC-BOUNDED-FAIL %s\n", msg)
				t.FailNow()
			}
			if valid && len(c.name) > 6 && c.name[:6] == "Client" {
				direct, _, _ := govcSafeDecode(c, line)
				pm, err := ParseClientMsg(line)
				if err != nil || pm == nil || !reflect.DeepEqual(reflect.ValueOf(pm).Elem().Interface(), direct) {
					fmt.Printf("GOVC-BOUNDED-FAIL ParseClientMsg on the valid %s fixture %q: got %#v err=%v, the %s decoder gives %+v\n", c.name, line, pm, err, c.name, direct)
					t.FailNow()
				}
			}
			if valid {
				if _, err, _ := govcSafeDecode(c, line); err != nil {
					fmt.Printf("GOVC-BOUNDED-FAIL %s: fixture listed as valid is rejected: %q: %v\n", c.name, line, err)
					t.FailNow()
				}
			}
			if !valid || len(line) > 400 {
				continue
			}
			for pos := 0; pos <= len(line); pos++ {
				var muts [][]byte
				if pos < len(line) {
					muts = append(muts, append(append([]byte(nil), line[:pos]...), line[pos+1:]...))
				}
				for _, a := range alphabet {
					if pos < len(line) {
						m := append([]byte(nil), line...)
						m[pos] = a
						muts = append(muts, m)
					}
					m := append(append(append([]byte(nil), line[:pos]...), a), line[pos:]...)
					muts = append(muts, m)
				}
				for _, m := range muts {
					evals++
					if msg := govcCheckText(c, m); msg != "" {
						fmt.Printf("GOVC-BOUNDED-FAIL %s\n", msg)
						t.FailNow()
					}
					// client messages also through the label dispatcher
					if len(c.name) > 6 && c.name[:6] == "Client" {
						func() {
							defer func() {
								if r := recover(); r != nil {
									fmt.Printf("GOVC-BOUNDED-FAIL ParseClientMsg panicked on %q: %v\n", m, r)
									t.FailNow()
								}
							}()
							if pm, err := ParseClientMsg(m); err == nil && (pm == nil || reflect.ValueOf(pm).IsNil()) {
								fmt.Printf("GOVC-BOUNDED-FAIL ParseClientMsg accepted %q but returned no message\n", m)
								t.FailNow()
							}
						}()
					}
				}
			}
		}
		fh.Close()
	}
	fmt.Printf("GOVC-BOUNDED evaluations=%d\n", evals)
}

func TestGovcBoundedCodecValues(t *testing.T) {
	strs := []string{"", "a", "\"", "\\", "\n", "\t\r\b\f", "\x00\x1f\x7f", "<>&", "  ", "é世", "\U0001F600", "a\"b\\c/d", " lead", "trail ", "�"}
	hex64 := []string{"0000000000000000000000000000000000000000000000000000000000000000", "ffffffffffffffffffffffffffffffffffffffffffffffffffffffffffffffff", "0123456789abcdef0123456789abcdef0123456789abcdef0123456789abcdef"}
	ints := []int64{0, 1, -1, 5, 65535, 1 << 31, 1<<53 + 1, 1<<63 - 1, -(1 << 63)}
	var tagsets [][]Tag
	tagsets = append(tagsets, []Tag{}, []Tag{{}}, []Tag{{"e"}}, []Tag{{"e", hex64[2], "wss://r"}, {"p", hex64[1]}})
	for _, s := range strs {
		tagsets = append(tagsets, []Tag{{"t", s}, {s}, {s, s, s}})
	}
	var events []*Event
	for i, tg := range tagsets {
		events = append(events, &Event{ID: hex64[i%3], Pubkey: hex64[(i+1)%3], CreatedAt: ints[i%len(ints)], Kind: ints[(i+3)%len(ints)], Tags: tg, Content: strs[i%len(strs)], Sig: hex64[i%3] + hex64[(i+2)%3]})
	}
	i64 := func(v int64) *int64 { return &v }
	var filters []*ReqFilter
	filters = append(filters, &ReqFilter{}, &ReqFilter{IDs: []string{}}, &ReqFilter{IDs: hex64, Authors: hex64[:1], Kinds: ints, Tags: map[string][]string{"e": hex64, "p": {}, "Z": {"x"}}, Since: i64(0), Until: i64(1<<63 - 1), Limit: i64(0)})
	for i, s := range strs {
		filters = append(filters, &ReqFilter{IDs: []string{s}, Tags: map[string][]string{"t": {s, strs[(i+1)%len(strs)]}}, Limit: i64(ints[i%len(ints)])})
	}
	evals := 0
	fail := func(what string, v any, enc []byte, got any, err error) {
		fmt.Printf("GOVC-BOUNDED-FAIL %s: decode(encode(v)) != v: v=%+v encoding=%q got=%+v err=%v\n", what, v, enc, got, err)
		t.FailNow()
	}
	rt := func(what string, v any, dec func(b []byte) (any, error)) {
		evals++
		enc, err := json.Marshal(v)
		if err != nil {
			fail(what+" (encode)", v, nil, nil, err)
		}
		got, err := dec(enc)
		if err != nil || !reflect.DeepEqual(got, v) {
			fail(what, v, enc, got, err)
		}
	}
	cs := govcCodecs()
	deref := func(c govcCodec) func(b []byte) (any, error) { return c.dec }
	for _, e := range events {
		rt("Event", *e, deref(cs["events"]))
		rt("ClientEventMsg", ClientEventMsg{Event: e}, deref(cs["clienteventmsgs"]))
		rt("ClientAuthMsg", ClientAuthMsg{Event: e}, deref(cs["clientauthmsgs"]))
		for _, s := range strs[:6] {
			rt("ServerEventMsg", ServerEventMsg{SubscriptionID: s, Event: e}, deref(cs["servereventmsgs"]))
		}
	}
	for _, f := range filters {
		rt("ReqFilter", *f, deref(cs["reqfilter"]))
		for _, s := range strs {
			rt("ClientReqMsg", ClientReqMsg{SubscriptionID: s, ReqFilters: []*ReqFilter{f}}, deref(cs["clientreqmsgs"]))
			rt("ClientCountMsg", ClientCountMsg{SubscriptionID: s, ReqFilters: []*ReqFilter{f, filters[0]}}, deref(cs["clientcountmsgs"]))
		}
	}
	for _, s := range strs {
		rt("ClientCloseMsg", ClientCloseMsg{SubscriptionID: s}, deref(cs["clientclosemsgs"]))
		rt("ServerEOSEMsg", ServerEOSEMsg{SubscriptionID: s}, deref(cs["servereosemsgs"]))
		rt("ServerNoticeMsg", ServerNoticeMsg{Message: s}, deref(cs["servernoticemsgs"]))
		rt("ServerAuthMsg", ServerAuthMsg{Challenge: s}, deref(cs["serverauthmsgs"]))
		for _, n := range ints {
			if n < 0 {
				continue
			}
			rt("ServerCountMsg", ServerCountMsg{SubscriptionID: s, Count: uint64(n), Approximate: nil}, deref(cs["servercountmsgs"]))
			for _, ap := range []bool{false, true} {
				ap := ap
				rt("ServerCountMsg", ServerCountMsg{SubscriptionID: s, Count: uint64(n), Approximate: &ap}, deref(cs["servercountmsgs"]))
			}
		}
		// OK / CLOSED: a well-formed value keeps a machine-readable prefix in MsgPrefix (an empty MsgPrefix goes
		// with a text that does not itself begin with one of the known prefixes)
		for _, prefix := range []string{"", MachineReadablePrefixPoW, MachineReadablePrefixDuplicate, MachineReadablePrefixBlocked, MachineReadablePrefixRateLimited, MachineReadablePrefixInvalid, MachineReadablePrefixError} {
			for j, id := range hex64 {
				rt("ServerOKMsg", ServerOKMsg{EventID: id, Accepted: j%2 == 0, Msg: s, MsgPrefix: prefix}, deref(cs["serverokmsgs"]))
			}
			for _, sub := range strs[:5] {
				rt("ServerClosedMsg", ServerClosedMsg{SubscriptionID: sub, Msg: s, MsgPrefix: prefix}, deref(cs["serverclosedmsgs"]))
			}
		}
	}
	fmt.Printf("GOVC-BOUNDED evaluations=%d\n", evals)
}
