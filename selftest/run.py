#!/usr/bin/env python3
"""Must-fail corpus: applies each mutant (exact string replacement) to a scratch copy of /repo
outside /repo and /verif, runs the property check against the copy and requires a VIOLATION.
A surviving mutant is reported as WEAK-CONTRACT (a defect of the machinery).
usage: run.py [--prop Cxx] [--id name] [--with-tests] [--keep]"""
import json, os, shutil, subprocess, sys, tempfile, argparse
V = "/verif"
ap = argparse.ArgumentParser()
ap.add_argument("--prop"); ap.add_argument("--id"); ap.add_argument("--with-tests", action="store_true")
ap.add_argument("--repo", default="/repo")
a = ap.parse_args()
muts = json.load(open(os.path.join(V, "selftest", "mutants.json")))
env = dict(os.environ, GOFLAGS="-mod=mod", GOPROXY="off", GOSUMDB="off", GOTOOLCHAIN="local")
bad = 0; n = 0
for m in muts:
    if a.prop and m["property"] != a.prop: continue
    if a.id and m["id"] != a.id: continue
    n += 1
    tmp = tempfile.mkdtemp(prefix="govc-mut-")
    try:
        dst = os.path.join(tmp, "repo")
        shutil.copytree(a.repo, dst, ignore=shutil.ignore_patterns(".git"))
        path = os.path.join(dst, m["file"])
        src = open(path).read()
        if src.count(m["old"]) != 1:
            print(f"MUTANT-STALE {m['id']}: pattern occurs {src.count(m['old'])} times in {m['file']}"); bad += 1; continue
        open(path, "w").write(src.replace(m["old"], m["new"]))
        if a.with_tests:
            r = subprocess.run(["go", "test", "-vet=off", "-count=1", "./..."], cwd=dst, env=env, capture_output=True, text=True)
            print(f"  tests on {m['id']}: {'pass (realistic mutant)' if r.returncode == 0 else 'FAIL (the suite already catches it; kept as an engine canary)'}")
        out = os.path.join(tmp, "out")
        r = subprocess.run([os.path.join(V, "bin", "govc"), "check", "-repo", dst, "-specs", os.path.join(V, "specs"), "-prop", m["property"],
                            "-out", out, "-known", os.path.join(V, "known_findings.json")], env=env, capture_output=True, text=True)
        viol = [l for l in r.stdout.splitlines() if l.startswith("VIOLATION")]
        detail = [l.strip() for l in r.stdout.splitlines() if l.startswith("  failed obligation")]
        if r.returncode == 1 and viol:
            exp = m.get("expect")
            if exp and not any(exp in d for d in detail):
                print(f"KILLED-ELSEWHERE {m['id']} ({m['property']}): expected obligation containing {exp!r}; got {detail[:3]}")
            else:
                rep = "replayed" if any("no-failing-input-found" not in v for v in viol) else "no-input"
                print(f"KILLED {m['id']} ({m['property']}) [{rep}]: {detail[0][:150] if detail else ''}")
        else:
            bad += 1
            print(f"WEAK-CONTRACT {m['id']} ({m['property']}): mutant survived (rc={r.returncode})\n    " + "\n    ".join(r.stdout.splitlines()[-4:]))
    finally:
        shutil.rmtree(tmp, ignore_errors=True)
print(f"selftest: {n} mutants, {bad} not killed")
sys.exit(1 if bad else 0)
