package main

import (
	"fmt"
	"go/types"
	"sort"
	"strings"
)

// Term is an SMT-LIB term together with the Go type it models (nil for ghost terms).
type Term struct {
	S    string
	T    types.Type // Go type (after type-parameter substitution); nil for ghost
	Sort string     // SMT sort
	// ghost arrays: element info
	KT, VT types.Type
	KS, VS string
}

func (t Term) String() string { return t.S }

// Universe holds everything that is global to one govc run: sort declarations,
// string literals, type tags, uninterpreted function declarations.
type Universe struct {
	stage1Only  bool            // Solve stops after the short race (canaries whose outcome only feeds a note)
	retryLite   bool            // second-chance pass of main: reduced set of solver variants
	sortDecls   []string        // in dependency order
	sortSeen    map[string]bool // sort name -> declared
	structSorts map[string]*types.Struct
	funDecls    []string
	funSeen     map[string]bool
	axioms      []string          // global axioms (always included)
	lits        map[string]string // string literal value -> symbol
	litOrder    []string
	tags        map[string]int // type string -> tag
	tagTypes    []types.Type
	boxSorts    map[string]bool
	anonN       int
	anonNames   map[string]string
	fresh       int
	namedStruct map[string]string
	boundedWF   int // >0: slice type invariants are expanded for the first K elements (counterexample search)
}

func NewUniverse() *Universe {
	u := &Universe{
		sortSeen:    map[string]bool{"Int": true, "Bool": true},
		structSorts: map[string]*types.Struct{},
		funSeen:     map[string]bool{},
		lits:        map[string]string{},
		tags:        map[string]int{},
		boxSorts:    map[string]bool{},
		anonNames:   map[string]string{},
		namedStruct: map[string]string{},
	}
	u.sortDecls = append(u.sortDecls, "(declare-sort Str 0)")
	u.sortSeen["Str"] = true
	u.sortDecls = append(u.sortDecls, "(declare-datatypes ((Iface 0)) (((mk_Iface (itag Int) (ipay Int)))))")
	u.sortSeen["Iface"] = true
	u.declFun("s.len", "(Str) Int")
	u.declFun("s.at", "(Str Int) Int")
	u.declFun("s.cat", "(Str Str) Str")
	u.declFun("s.lt", "(Str Str) Bool")
	u.declFun("s.sub", "(Str Int Int) Str") // s[a:b]
	u.declFun("s.empty", "() Str")
	u.axioms = append(u.axioms,
		"(forall ((s Str)) (! (and (>= (s.len s) 0) (<= (s.len s) 9223372036854775807)) :pattern ((s.len s))))",
		"(= (s.len s.empty) 0)",
		"(forall ((s Str)) (! (=> (= (s.len s) 0) (= s s.empty)) :pattern ((s.len s))))",
		"(forall ((s Str) (i Int)) (! (and (<= 0 (s.at s i)) (<= (s.at s i) 255)) :pattern ((s.at s i))))",
		"(forall ((a Str) (b Str)) (! (= (s.len (s.cat a b)) (+ (s.len a) (s.len b))) :pattern ((s.cat a b))))",
		"(forall ((a Str)) (! (= (s.cat a s.empty) a) :pattern ((s.cat a s.empty))))",
		"(forall ((s Str) (lo Int) (hi Int)) (! (=> (and (<= 0 lo) (<= lo hi) (<= hi (s.len s))) (= (s.len (s.sub s lo hi)) (- hi lo))) :pattern ((s.sub s lo hi))))",
		"(forall ((s Str) (lo Int) (hi Int) (i Int)) (! (=> (and (<= 0 lo) (<= 0 i) (< i (- hi lo)) (<= hi (s.len s))) (= (s.at (s.sub s lo hi) i) (s.at s (+ lo i)))) :pattern ((s.at (s.sub s lo hi) i))))",
		"(forall ((s Str)) (! (= (s.sub s 0 (s.len s)) s) :pattern ((s.sub s 0 (s.len s)))))",
		"(forall ((a Str) (b Str) (i Int)) (! (= (s.at (s.cat a b) i) (ite (< i (s.len a)) (s.at a i) (s.at b (- i (s.len a))))) :pattern ((s.at (s.cat a b) i))))",
		"(forall ((a Str)) (! (= (s.cat s.empty a) a) :pattern ((s.cat s.empty a))))",
	)
	u.lits[""] = "s.empty"
	return u
}

func (u *Universe) declFun(name, sig string) {
	if u.funSeen[name] {
		return
	}
	u.funSeen[name] = true
	// sig: "(A B) R"
	u.funDecls = append(u.funDecls, fmt.Sprintf("(declare-fun %s %s)", name, sig))
}

func (u *Universe) Fresh(prefix string) string {
	u.fresh++
	return fmt.Sprintf("%s!%d", sanitize(prefix), u.fresh)
}

func sanitize(s string) string {
	var b strings.Builder
	for _, r := range s {
		switch {
		case r >= 'a' && r <= 'z', r >= 'A' && r <= 'Z', r >= '0' && r <= '9', r == '_', r == '.', r == '$':
			b.WriteRune(r)
		default:
			b.WriteByte('_')
		}
	}
	if b.Len() == 0 {
		return "x"
	}
	return b.String()
}

// StrLit interns a string literal.
func (u *Universe) StrLit(v string) string {
	if s, ok := u.lits[v]; ok {
		return s
	}
	name := fmt.Sprintf("lit!%d_%s", len(u.lits), sanitize(truncate(v, 12)))
	u.lits[v] = name
	u.litOrder = append(u.litOrder, v)
	return name
}

func truncate(s string, n int) string {
	if len(s) > n {
		return s[:n]
	}
	return s
}

// litDecls returns declarations+axioms for the literals that occur in text.
func (u *Universe) litDecls(text string) (decls, axioms []string) {
	// distinctness between different literals follows from len/at facts.
	for _, v := range u.litOrder {
		name := u.lits[v]
		if !strings.Contains(text, name) {
			continue
		}
		decls = append(decls, fmt.Sprintf("(declare-fun %s () Str)", name))
		axioms = append(axioms, fmt.Sprintf("(= (s.len %s) %d)", name, len(v)))
		for i := 0; i < len(v); i++ {
			axioms = append(axioms, fmt.Sprintf("(= (s.at %s %d) %d)", name, i, v[i]))
		}
	}
	return
}

// Tag returns the dynamic-type tag for t (>=1; 0 is the nil interface).
func (u *Universe) Tag(t types.Type) int {
	k := types.TypeString(t, nil)
	if n, ok := u.tags[k]; ok {
		return n
	}
	n := len(u.tags) + 1
	u.tags[k] = n
	u.tagTypes = append(u.tagTypes, t)
	return n
}

// Box / Unbox function names for a payload sort that is not Int.
func (u *Universe) boxFuns(sortName string) (box, unbox string) {
	key := sanitize(sortName)
	box, unbox = "box_"+key, "unbox_"+key
	if !u.boxSorts[sortName] {
		u.boxSorts[sortName] = true
		u.declFun(box, fmt.Sprintf("(%s) Int", sortName))
		u.declFun(unbox, fmt.Sprintf("(Int) %s", sortName))
		u.axioms = append(u.axioms, fmt.Sprintf("(forall ((x %s)) (! (= (%s (%s x)) x) :pattern ((%s x))))", sortName, unbox, box, box))
	}
	return
}

func and(xs ...string) string {
	var ys []string
	for _, x := range xs {
		if x == "" || x == "true" {
			continue
		}
		if x == "false" {
			return "false"
		}
		ys = append(ys, x)
	}
	if len(ys) == 0 {
		return "true"
	}
	if len(ys) == 1 {
		return ys[0]
	}
	return "(and " + strings.Join(ys, " ") + ")"
}

func or(xs ...string) string {
	var ys []string
	for _, x := range xs {
		if x == "" || x == "false" {
			continue
		}
		if x == "true" {
			return "true"
		}
		ys = append(ys, x)
	}
	if len(ys) == 0 {
		return "false"
	}
	if len(ys) == 1 {
		return ys[0]
	}
	return "(or " + strings.Join(ys, " ") + ")"
}

func not(x string) string {
	switch x {
	case "true":
		return "false"
	case "false":
		return "true"
	}
	if strings.HasPrefix(x, "(not ") && balanced(x[5:len(x)-1]) {
		return x[5 : len(x)-1]
	}
	return "(not " + x + ")"
}

func balanced(s string) bool {
	d := 0
	for _, c := range s {
		if c == '(' {
			d++
		} else if c == ')' {
			d--
			if d < 0 {
				return false
			}
		}
	}
	return d == 0
}

func imp(a, b string) string {
	if a == "true" {
		return b
	}
	if a == "false" || b == "true" {
		return "true"
	}
	return "(=> " + a + " " + b + ")"
}

func ite(c, a, b string) string {
	if c == "true" {
		return a
	}
	if c == "false" {
		return b
	}
	if a == b {
		return a
	}
	return "(ite " + c + " " + a + " " + b + ")"
}

func eq(a, b string) string {
	if a == b {
		return "true"
	}
	return "(= " + a + " " + b + ")"
}

// sel builds (select a i), simplifying select-of-store at the syntactically same index.
func sel(a, i string) string {
	if strings.HasPrefix(a, "(store ") {
		if args := splitSExprArgs(a[len("(store ") : len(a)-1]); len(args) == 3 {
			if args[1] == i {
				return args[2]
			}
			// an object allocated in this activation (new!N) is neither a parameter (bound at entry) nor another
			// allocation: the store at it does not concern the read
			if isAllocSym(args[1]) && (strings.HasPrefix(i, "p$") && !strings.ContainsAny(i, " ()") || isAllocSym(i)) {
				return sel(args[0], i)
			}
		}
	}
	return "(select " + a + " " + i + ")"
}

// splitSExprArgs splits "x (f y) z" into its top-level s-expressions.
func splitSExprArgs(s string) []string {
	var out []string
	d, start := 0, -1
	for i := 0; i < len(s); i++ {
		c := s[i]
		switch {
		case c == '(':
			if d == 0 && start < 0 {
				start = i
			}
			d++
		case c == ')':
			d--
			if d == 0 && start >= 0 {
				out = append(out, s[start:i+1])
				start = -1
			}
		case c == ' ' || c == '\n' || c == '\t':
			if d == 0 && start >= 0 {
				out = append(out, s[start:i])
				start = -1
			}
		default:
			if d == 0 && start < 0 {
				start = i
			}
		}
	}
	if start >= 0 {
		out = append(out, s[start:])
	}
	return out
}
func store(a, i, v string) string { return "(store " + a + " " + i + " " + v + ")" }

func intLit(n int64) string {
	if n < 0 {
		return fmt.Sprintf("(- %d)", -n)
	}
	return fmt.Sprintf("%d", n)
}

func sortedKeys[V any](m map[string]V) []string {
	ks := make([]string, 0, len(m))
	for k := range m {
		ks = append(ks, k)
	}
	sort.Strings(ks)
	return ks
}

func isAllocSym(t string) bool {
	if !strings.HasPrefix(t, "new!") {
		return false
	}
	for _, c := range t[4:] {
		if c < '0' || c > '9' {
			return false
		}
	}
	return len(t) > 4
}
