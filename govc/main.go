package main

import (
	"runtime"
	"encoding/json"
	"flag"
	"fmt"
	"os"
	"path/filepath"
	"sort"
	"strconv"
	"strings"
	"time"
)

func hasProp(ps []string, p string) bool {
	for _, x := range ps {
		if x == p {
			return true
		}
	}
	return false
}

func specMentions(s *FuncSpec, prop string) bool {
	if hasProp(s.Serves, prop) {
		return true
	}
	for _, c := range s.Ensures {
		if hasProp(c.Props, prop) {
			return true
		}
	}
	for _, l := range s.Loops {
		for _, c := range l.Invs {
			if hasProp(c.Props, prop) {
				return true
			}
		}
	}
	return false
}

type KnownFinding struct {
	Property string `json:"property"`
	Status   string `json:"status"` // open | fixed
	Func     string `json:"func"`   // function key, e.g. "validNaddr"
	Clause   string `json:"clause"` // clause text (exact) or obligation kind prefix
	Class    string `json:"class"`  // input class predicate (contract language, over the function's parameters)
	What     string `json:"what"`
	Commit   string `json:"commit,omitempty"`
}

func main() {
	go func() {
		var ms runtime.MemStats
		for {
			time.Sleep(300 * time.Millisecond)
			runtime.ReadMemStats(&ms)
			if ms.HeapAlloc > 10<<30 {
				memAbort.Store(true)
			} else if ms.HeapAlloc < 3<<30 && memAbort.Load() {
				memAbort.Store(false)
			}
		}
	}()
	if len(os.Args) < 2 {
		fmt.Fprintln(os.Stderr, "usage: govc check|list ...")
		os.Exit(2)
	}
	switch os.Args[1] {
	case "check":
		os.Exit(cmdCheck(os.Args[2:]))
	case "list":
		os.Exit(cmdList(os.Args[2:]))
	default:
		fmt.Fprintln(os.Stderr, "unknown command")
		os.Exit(2)
	}
}

func cmdList(args []string) int {
	fs := flag.NewFlagSet("list", flag.ExitOnError)
	repo := fs.String("repo", "/repo", "")
	specs := fs.String("specs", "/verif/specs", "")
	fn := fs.String("func", "", "only this function key")
	dump := fs.Bool("smt", false, "dump smt")
	fs.Parse(args)
	p, err := LoadProg(*repo, []string{*specs})
	if err != nil {
		fmt.Println("UNDECIDED load:", err)
		return 2
	}
	for _, k := range sortedKeys(p.con.Funcs) {
		s := p.con.Funcs[k]
		if s.Kind != "func" || (*fn != "" && s.Key != *fn) {
			continue
		}
		fi := p.funcs[k]
		if fi == nil {
			fmt.Println("MISSING", k)
			continue
		}
		r := p.VerifyFunc(fi, s)
		if r.Err != nil {
			fmt.Println(k, "ERROR", r.Err)
			continue
		}
		fmt.Printf("%s: %d obligations\n", k, len(r.Obls))
		for _, o := range r.Obls {
			fmt.Printf("  %-50s %v  %s\n", o.Name, o.Props, truncate(o.Text, 70))
			if *dump {
				fmt.Println(p.u.smtText(o, false, false))
			}
		}
		for _, n := range r.Notes {
			fmt.Println("  note:", n)
		}
	}
	return 0
}

func cmdCheck(args []string) int {
	fs := flag.NewFlagSet("check", flag.ExitOnError)
	repo := fs.String("repo", "/repo", "")
	specs := fs.String("specs", "/verif/specs", "")
	prop := fs.String("prop", "", "property id")
	tier := fs.String("tier", "quick", "")
	outDir := fs.String("out", "/verif/out", "")
	evidence := fs.String("evidence", "", "evidence file")
	known := fs.String("known", "/verif/known_findings.json", "")
	cmdline := fs.String("cmdline", "", "checker command line to record")
	par := fs.Int("par", 8, "parallel obligations")
	only := fs.String("only", "", "development: verify only functions whose key contains this string (never used by registered commands)")
	fs.Parse(args)
	t0 := time.Now()
	seed := 0
	if s := os.Getenv("VERIF_SEED"); s != "" {
		seed, _ = strconv.Atoi(s)
	}
	thorough := *tier == "thorough"
	timeoutS := 10
	if thorough {
		timeoutS = 60
	}
	p, err := LoadProg(*repo, []string{*specs})
	if err != nil {
		fmt.Println("UNDECIDED property="+*prop+" load failed:", err)
		return 2
	}
	p.seed = seed
	p.curProp = *prop
	budget := 150 * time.Second
	if thorough {
		budget = 900 * time.Second
	}
	var findings []KnownFinding
	if b, err := os.ReadFile(*known); err == nil {
		if err := json.Unmarshal(b, &findings); err != nil {
			fmt.Println("UNDECIDED property="+*prop+" bad known findings file:", err)
			return 2
		}
	}
	var obls []*Obligation
	var notes []string
	var funcsUnder []string
	var trusted []string
	usedSpecs := map[string]bool{}
	undecided := []string{}
	for _, k := range sortedKeys(p.con.Funcs) {
		s := p.con.Funcs[k]
		if s.Kind != "func" || !specMentions(s, *prop) {
			continue
		}
		if *only != "" && !strings.Contains(k, *only) {
			continue
		}
		fi := p.funcs[k]
		if fi == nil {
			// the function a contract is attached to no longer exists: the contract cannot be established
			obls = append(obls, syntheticFailure(k, s, *prop, "contract target missing: the function "+k+" named by the contract at "+s.Where+" does not exist in the current code"))
			continue
		}
		r := p.VerifyFunc(fi, s)
		if r.Err != nil {
			// the current code of the function cannot be brought under its contract (the contract names something
			// that no longer exists, or the code uses a construct outside the verifier's subset): the obligation
			// "function satisfies its contract" is not discharged
			obls = append(obls, syntheticFailure(k, s, *prop, fmt.Sprintf("the contract of %s cannot be established on the current code: %v", k, r.Err)))
			continue
		}
		if r.Trusted {
			trusted = append(trusted, r.Notes...)
			continue
		}
		funcsUnder = append(funcsUnder, k)
		n := 0
		clauseSeen := map[string]bool{}
		for _, o := range r.Obls {
			if hasProp(o.Props, *prop) {
				obls = append(obls, o)
				n++
				clauseSeen[o.Text] = true
			}
		}
		for _, c := range s.Ensures {
			ps := c.Props
			if ps == nil {
				ps = s.Serves
			}
			if hasProp(ps, *prop) && !clauseSeen[c.Text] && s.Opts["noreturn"] != "true" {
				// a clause that generates no obligation (trivially true after simplification) is fine only if the
				// function still has obligations; record it
				notes = append(notes, "clause generated no obligation (trivial): "+k+": "+c.Text)
			}
		}
		if n == 0 {
			undecided = append(undecided, "vacuity: no obligation generated for "+k)
		}
		notes = append(notes, r.Notes...)
		for _, u := range r.Used {
			usedSpecs[u] = true
		}
	}
	// global lemmas
	lobls, lerr := p.lemmaObligations(*prop)
	if lerr != nil {
		undecided = append(undecided, lerr.Error())
	}
	obls = append(obls, lobls...)
	// bounded stand-ins (never counted as proved)
	var boundedRes []*BoundedResult
	for _, bc := range p.con.Bounded {
		if hasProp(bc.Props, *prop) {
			boundedRes = append(boundedRes, p.runBounded(bc))
		}
	}
	if len(obls) == 0 && len(undecided) > 0 {
		for _, u := range undecided {
			fmt.Println("UNDECIDED property=" + *prop + " " + u)
		}
		return 2
	}
	if len(obls) == 0 {
		fmt.Println("UNDECIDED property=" + *prop + " no obligations (vacuous check)")
		return 2
	}
	smtDir := filepath.Join(*outDir, "smt", *prop)
	os.RemoveAll(smtDir)
	os.MkdirAll(smtDir, 0o755)
	p.u.SolveAll(obls, smtDir, timeoutS, thorough, *par)
	// second chance for a few undecided obligations (no model, no verdict): the same queries again, one after the
	// other, with retryFactor times the (CPU) time limit. A proof close to the limit otherwise depends on the speed
	// of the machine; a real failure stays undecided (and many undecided obligations are not a speed problem: no
	// retry then). Obligations listed as known findings are expected to fail and are not retried.
	var again []*Obligation
	for _, o := range obls {
		if !o.Cover && o.Result != nil && (o.Result.Status == "unknown" || o.Result.Status == "timeout") && matchFinding(findings, *prop, o) == nil {
			again = append(again, o)
		}
	}
	if len(again) > 0 && len(again) <= 4 && os.Getenv("GOVC_NO_RETRY") == "" {
		for _, o := range again {
			first := o.Result
			o.Result = nil
			p.u.retryLite = true
			r := p.u.Solve(o, smtDir, retryFactor*timeoutS, false)
			p.u.retryLite = false
			if r.Status == "unsat" {
				r.Backend += "+retry"
				r.Ms += first.Ms
				o.Result = r
			} else {
				o.Result = first
			}
		}
	}

	// classify
	type sample struct {
		Obligation string `json:"obligation"`
		Clause     string `json:"clause"`
		Where      string `json:"where"`
		Backend    string `json:"backend"`
		Ms         int64  `json:"ms"`
		Status     string `json:"status"`
	}
	var samples []sample
	discharged, covers, coverOK := 0, 0, 0
	backendCount := map[string]int{}
	var solverMs int64
	var failed []*Obligation
	infra := []string{}
	for _, o := range obls {
		r := o.Result
		solverMs += r.Ms
		if o.Cover {
			covers++
			switch r.Status {
			case "sat", "unknown", "timeout":
				coverOK++
			case "unsat":
				infra = append(infra, "vacuity: "+o.Name+" ("+o.Text+") is unsatisfiable")
			default:
				infra = append(infra, "solver error on "+o.Name+": "+truncate(r.Output, 200))
			}
			continue
		}
		switch r.Status {
		case "unsat":
			discharged++
			backendCount[r.Backend]++
			if len(samples) < 12 {
				samples = append(samples, sample{o.Name, o.Text, o.Where, r.Backend, r.Ms, r.Status})
			}
		case "error":
			infra = append(infra, "solver error on "+o.Name+": "+truncate(r.Output, 300))
		default:
			failed = append(failed, o)
		}
	}
	// known findings: restricted re-proof
	var knownLines []string
	var violations []*Obligation
	restricted := 0
	for _, o := range failed {
		kf := matchFinding(findings, *prop, o)
		if kf == nil {
			violations = append(violations, o)
			continue
		}
		ok, canary, err := p.restrictedCheck(o, kf, smtDir, timeoutS)
		if err != nil {
			infra = append(infra, "known finding "+kf.What+": "+err.Error())
			continue
		}
		if !ok {
			// fails outside the listed class: a different violation
			violations = append(violations, o)
			continue
		}
		if !canary {
			notes = append(notes, "known finding no longer reproduces inside its class: "+kf.What+" ("+o.Name+")")
		}
		restricted++
		line := "KNOWN-FINDING: property=" + *prop + " " + kf.What
		dup := false
		for _, l := range knownLines {
			if l == line {
				dup = true
			}
		}
		if !dup {
			knownLines = append(knownLines, line)
		}
	}
	nObl := len(obls) - covers
	replayDir := filepath.Join(*outDir, "replay", *prop)
	os.RemoveAll(replayDir)
	exit := 0
	for _, l := range knownLines {
		fmt.Println(l)
	}
	infra = append(infra, undecided...)
	if len(infra) > 0 {
		for _, m := range infra {
			fmt.Println("UNDECIDED property=" + *prop + " " + m)
		}
		exit = 2
	}
	p.replayDeadline = time.Now().Add(budget)
	for _, o := range violations {
		os.MkdirAll(replayDir, 0o755)
		path := filepath.Join(replayDir, sanitize(o.Name)+".json")
		rep := p.makeReplay(o, *prop, *repo, *outDir)
		b, _ := json.MarshalIndent(rep, "", " ")
		os.WriteFile(path, b, 0o644)
		if o.Weak && !rep.Reproduced {
			// the function's proof annotations are stale or it calls something without a contract: the contract of
			// the function can no longer be established. That is a failed obligation (reported, no input found).
			rep.Note = "the function-level contract no longer verifies (stale loop annotations or a callee without contract, abstracted by havoc); " + rep.Note
			b, _ = json.MarshalIndent(rep, "", " ")
			os.WriteFile(path, b, 0o644)
		}
		suffix := ""
		if !rep.Reproduced {
			suffix = " no-failing-input-found"
		}
		fmt.Printf("VIOLATION property=%s replay=%s%s\n", *prop, path, suffix)
		serr := ""
		if i := strings.Index(o.Result.Output, "(error"); i >= 0 && !strings.Contains(o.Result.Output, "model is not available") {
			serr = " SOLVER-ERROR " + strings.SplitN(o.Result.Output[i:], "\n", 2)[0]
		}
		fmt.Printf("  failed obligation %s [%s] at %s: %s (solver: %s%s)\n", o.Name, o.Kind, o.Where, o.Text, o.Result.Status, serr)
		exit = 1
	}
	var boundedSamples []map[string]any
	for _, br := range boundedRes {
		if br.Err != nil {
			fmt.Println("UNDECIDED property=" + *prop + " " + br.Check.Name + ": " + br.Err.Error())
			if exit == 0 {
				exit = 2
			}
			continue
		}
		boundedSamples = append(boundedSamples, map[string]any{"check": br.Check.Name, "bound": boundText(br.Check), "evaluations": br.Evaluations, "ok": br.OK})
		if !br.OK {
			os.MkdirAll(replayDir, 0o755)
			path := filepath.Join(replayDir, sanitize(br.Check.Name)+".json")
			b, _ := json.MarshalIndent(map[string]any{"property": *prop, "obligation": br.Check.Name, "kind": "bounded", "witness": br.Witness, "detail": br.Detail, "where": br.Check.Where,
				"note": "bounded check (not a proof): the witness string is a concrete failing input", "reproduced": true}, "", " ")
			os.WriteFile(path, b, 0o644)
			fmt.Printf("VIOLATION property=%s replay=%s\n  bounded check %s failed: %s\n", *prop, path, br.Check.Name, br.Detail)
			exit = 1
		}
	}
	// evidence
	var used []string
	for k := range usedSpecs {
		used = append(used, k)
	}
	sort.Strings(used)
	assumptions := []string{
		"SMT solvers (z3 5.1.0, z3 4.8.12, cvc5 1.0.3) are sound; govc's VC generation (unverified, guarded by must-fail mutants) is sound",
		"finite-set cardinality facts for Go maps (len(m) = |dom(m)|)",
		"sequential semantics: goroutine interleavings are not explored; lock/channel primitives behave as specified",
	}
	for _, n := range notes {
		assumptions = append(assumptions, n)
	}
	assumptions = append(assumptions, trusted...)
	{
		seen := map[string]bool{}
		var uniq []string
		for _, a := range assumptions {
			if !seen[a] {
				seen[a] = true
				uniq = append(uniq, a)
			}
		}
		assumptions = uniq
	}
	var tb []string
	for _, k := range used {
		if s := p.con.Funcs[k]; s != nil && s.Kind != "func" {
			tb = append(tb, "assumed contract: "+s.Kind+" "+k+" ("+s.Where+")")
		}
	}
	for _, f := range p.con.Facts {
		if f.Kind == "axiom" {
			tb = append(tb, "axiom "+f.Name+" ("+f.Where+")")
		}
	}
	tb = append(tb, "engine-modelled externs: fmt.Errorf/errors.New/errors.Join (opaque errors), fmt.Sprintf (uninterpreted), slog (dropped), strings.Clone (identity)")
	// the discharged obligation that took the longest (margin to the limits above)
	slowest := map[string]any{}
	var slowMax int64 = -1
	for _, o := range obls {
		if !o.Cover && o.Result != nil && o.Result.Status == "unsat" && o.Result.Ms > slowMax {
			slowMax = o.Result.Ms
			slowest = map[string]any{"obligation": o.Name, "ms": o.Result.Ms, "backend": o.Result.Backend, "stage": o.Result.Stage}
		}
	}
	ev := map[string]any{
		"property_id": *prop,
		"tier":        *tier,
		"seed":        seed,
		"level":       "proof",
		"coverage": map[string]any{
			"obligations":                          nObl,
			"discharged":                           discharged + restricted,
			"discharged_unrestricted":              discharged,
			"discharged_restricted_known_findings": restricted,
			"bounded":                              len(boundedSamples),
			"bounded_checks":                       boundedSamples,
			"checker_cmd":                          *cmdline,
			"trusted_base":                         tb,
			"samples":                              samples,
			"functions_under_contract":             funcsUnder,
			"contracts_relied_on":                  used,
			"backends":                             backendCount,
			"solver_ms_total":                      solverMs,
			"solver_time_is":                       "CPU time of the solver processes (ms); limits are CPU time too (RLIMIT_CPU), so verdicts do not depend on machine load",
			"solver_time_limits_s":                 map[string]int{"stage1_short_race": min(timeoutS, 3), "stage2_portfolio": timeoutS, "second_chance": retryFactor * timeoutS, "vacuity_cover": 2},
			"slowest_obligation":                   slowest,
			"vacuity_covers":                       covers,
			"vacuity_covers_ok":                    coverOK,
			"known_findings":                       knownLines,
			"failed":                               len(violations),
		},
		"assumptions": assumptions,
		"wall_s":      time.Since(t0).Seconds(),
		"violations":  len(violations),
	}
	if *evidence != "" {
		os.MkdirAll(filepath.Dir(*evidence), 0o755)
		b, _ := json.MarshalIndent(ev, "", " ")
		os.WriteFile(*evidence, b, 0o644)
	}
	if os.Getenv("GOVC_SLOW") != "" {
		// development aid: GOVC_SLOW=<ms> lists the obligations whose winning query took longer (default 2500)
		slowMs := int64(2500)
		if n, err := strconv.ParseInt(os.Getenv("GOVC_SLOW"), 10, 64); err == nil && n > 1 {
			slowMs = n
		}
		for _, o := range obls {
			if o.Result != nil && o.Result.Ms > slowMs {
				fmt.Printf("  slow %6d ms stage%d %-22s %s\n", o.Result.Ms, o.Result.Stage, o.Result.Backend, o.Name)
			}
		}
	}
	fmt.Printf("property=%s tier=%s functions=%d obligations=%d discharged=%d restricted=%d failed=%d covers=%d/%d bounded=%d solver_ms=%d wall_s=%.1f\n",
		*prop, *tier, len(funcsUnder), nObl, discharged, restricted, len(violations), coverOK, covers, len(boundedSamples), solverMs, time.Since(t0).Seconds())
	return exit
}

// retryFactor: time limit of the second-chance pass relative to the first pass
const retryFactor = 3

func matchFinding(fs []KnownFinding, prop string, o *Obligation) *KnownFinding {
	for i := range fs {
		f := &fs[i]
		if f.Property != prop || f.Status != "open" {
			continue
		}
		fkey := o.Func[strings.Index(o.Func, "::")+2:]
		if f.Func == fkey && (f.Clause == o.Text || f.Clause == o.Kind) {
			return f
		}
	}
	return nil
}

func syntheticFailure(k string, s *FuncSpec, prop string, why string) *Obligation {
	key := k[strings.Index(k, "::")+2:]
	return &Obligation{Name: key + "/contract-verifiable/1", Kind: "contract-verifiable", Props: []string{prop}, Func: k,
		Text: why, Where: s.Where, Goal: "false",
		Result: &SolveResult{Status: "unknown", Backend: "none", Output: why, All: map[string]string{}}}
}

func boundText(c *BoundedCheck) string {
	if c.Kind == "gotest" {
		return "exhaustive enumeration coded in " + c.Target + " (" + c.TestName + ")"
	}
	return fmt.Sprintf("all strings up to length %d over a 12-letter alphabet", c.MaxLen)
}
