package main

import (
	"fmt"
	"go/types"
	"path/filepath"
	"strings"
)

type ReplayRecord struct {
	Property    string            `json:"property"`
	Obligation  string            `json:"obligation"`
	Kind        string            `json:"kind"`
	Function    string            `json:"function"`
	Clause      string            `json:"clause"`
	Where       string            `json:"where"`
	Solver      string            `json:"solver_status"`
	Backend     string            `json:"backend"`
	SolverOut   string            `json:"solver_output"`
	SMTFile     string            `json:"smt_file"`
	Witness     map[string]string `json:"witness,omitempty"`
	ReplayCmd   string            `json:"replay_cmd,omitempty"`
	ReplayTest  string            `json:"replay_test,omitempty"`
	ReplayOut   string            `json:"replay_output,omitempty"`
	Reproduced  bool              `json:"reproduced"`
	Note        string            `json:"note"`
}

// lemmaObligations: global lemmas tagged with prop.
func (p *Prog) lemmaObligations(prop string) ([]*Obligation, error) {
	var out []*Obligation
	for _, f := range p.con.Facts {
		if f.Kind != "lemma" || !hasProp(f.Props, prop) {
			continue
		}
		o, err := p.lemmaObligation(f)
		if err != nil {
			return nil, err
		}
		out = append(out, o)
	}
	return out, nil
}

func (p *Prog) newBareVC(pkgPath, name string) *VC {
	var pk *types.Package
	fi := &FuncInfo{Key: name}
	if pp, ok := p.pkgs[pkgPath]; ok {
		pk = pp.Types
		fi.Pkg = pp
	} else {
		for _, pp := range p.pkgs {
			if fi.Pkg == nil || len(pp.PkgPath) < len(fi.Pkg.PkgPath) {
				fi.Pkg = pp
				pk = pp.Types
			}
		}
	}
	vc := &VC{p: p, u: p.u, fi: fi, spec: &FuncSpec{Key: name, Loops: map[int]*LoopSpec{}, Opts: map[string]string{}}, info: fi.Pkg.TypesInfo, pkg: pk,
		declSeen: map[string]bool{}, heap0: map[string]Term{}, heapSort: map[string]string{}, heapElemT: map[string]types.Type{},
		counters: map[string]int{}, params: map[string]types.Object{}, paramTerm: map[string]Term{},
		closures: map[string]*funcVal{}, usedLoops: map[int]bool{}, usedSpecs: map[string]bool{}, ts: TSubst{}}
	vc.declare("alloc@0", "Int")
	vc.base = append(vc.base, "(>= alloc@0 1)")
	return vc
}

func newState() *State {
	return &State{vars: map[types.Object]Term{}, heap: map[string]Term{}, alloc: "alloc@0", ghost: map[string]Term{},
		alias: map[types.Object]*aliasOrigin{}, freshSl: map[types.Object]bool{}, cells: map[types.Object]Term{}}
}

func (p *Prog) lemmaObligation(f *GlobalFact) (o *Obligation, err error) {
	defer func() {
		if r := recover(); r != nil {
			if e, ok := r.(error); ok {
				err = fmt.Errorf("lemma %s: %v", f.Name, e)
				return
			}
			panic(r)
		}
	}()
	vc := p.newBareVC(f.Pkg, "lemma/"+f.Name)
	st := newState()
	vc.entry = st
	env := &SpecEnv{vc: vc, st: st, old: st, vars: map[string]Term{}, pkg: vc.pkg}
	g := env.evalBool(f.Expr)
	// trusted axioms are available to lemmas
	var facts []string
	facts = append(facts, vc.base...)
	facts = append(facts, st.facts...)
	for _, a := range p.con.Facts {
		if a.Kind == "axiom" {
			facts = append(facts, env.evalBool(a.Expr))
		}
	}
	o = &Obligation{Name: "lemma/" + f.Name, Kind: "lemma", Props: f.Props, Func: "::lemma/" + f.Name, Text: f.Text, Where: f.Where, Facts: facts, Goal: g, Decls: vc.decls}
	o.vc = vc
	return o, nil
}

// restrictedCheck re-proves a failed obligation outside the input class of a known finding, and
// checks that it still fails inside the class (canary).
func (p *Prog) restrictedCheck(o *Obligation, kf *KnownFinding, dir string, timeoutS int) (okOutside, failsInside bool, err error) {
	defer func() {
		if r := recover(); r != nil {
			if e, ok := r.(error); ok {
				err = e
				return
			}
			panic(r)
		}
	}()
	if o.vc == nil {
		return false, false, fmt.Errorf("no context for %s", o.Name)
	}
	vc := o.vc
	ex, perr := parseSpecExpr(kf.Class)
	if perr != nil {
		return false, false, perr
	}
	st := o.st
	if st == nil {
		st = vc.entry
	}
	env := vc.specEnv(st, vc.entry)
	for n, t := range vc.paramTerm {
		env.vars[n] = t
	}
	cls := env.evalBool(ex)
	mk := func(suffix, extra string) *Obligation {
		n := *o
		n.Name = o.Name + suffix
		n.Facts = append(append([]string(nil), o.Facts...), extra)
		n.Decls = vc.decls
		n.Result = nil
		return &n
	}
	outside := mk("~outside", not(cls))
	inside := mk("~inside", cls)
	r1 := p.u.Solve(outside, dir, timeoutS, false)
	r2 := p.u.Solve(inside, dir, timeoutS, false)
	return r1.Status == "unsat", r2.Status != "unsat", nil
}

func (p *Prog) makeReplay(o *Obligation, prop, repo, outDir string) *ReplayRecord {
	r := o.Result
	rep := &ReplayRecord{Property: prop, Obligation: o.Name, Kind: o.Kind, Function: o.Func, Clause: o.Text, Where: o.Where,
		Solver: r.Status, Backend: r.Backend, SolverOut: truncate(r.Output, 6000), SMTFile: r.File}
	if r.Status != "sat" {
		rep.Note = "the obligation stopped proving; the solver returned no model (" + r.Status + ")"
		return rep
	}
	ok, note := p.tryReplay(o, rep, repo, filepath.Join(outDir, "replay", prop))
	rep.Reproduced = ok
	rep.Note = note
	return rep
}

var _ = strings.TrimSpace
