package main

import (
	"fmt"
	"go/types"
	"path/filepath"
	"regexp"
	"strings"
)

var reSliceLen = regexp.MustCompile(`\(len_(Slice_[A-Za-z0-9_]+) ([^\s()]+)\)`)
var reStrLen = regexp.MustCompile(`\(str\.len ([^\s()]+|\([^()]*\))\)`)

type ReplayRecord struct {
	Property   string            `json:"property"`
	Obligation string            `json:"obligation"`
	Kind       string            `json:"kind"`
	Function   string            `json:"function"`
	Clause     string            `json:"clause"`
	Where      string            `json:"where"`
	Solver     string            `json:"solver_status"`
	Backend    string            `json:"backend"`
	SolverOut  string            `json:"solver_output"`
	SMTFile    string            `json:"smt_file"`
	Witness    map[string]string `json:"witness,omitempty"`
	ReplayCmd  string            `json:"replay_cmd,omitempty"`
	ReplayTest string            `json:"replay_test,omitempty"`
	ReplayOut  string            `json:"replay_output,omitempty"`
	Reproduced bool              `json:"reproduced"`
	Note       string            `json:"note"`
}

// lemmaObligations: global lemmas tagged with prop.
func (p *Prog) lemmaObligations(prop string) ([]*Obligation, error) {
	var out []*Obligation
	for _, f := range p.con.Facts {
		if f.Kind != "lemma" || !hasProp(f.Props, prop) {
			continue
		}
		o, err := p.lemmaObligation(f)
		if err != nil {
			return nil, err
		}
		out = append(out, o)
	}
	return out, nil
}

func (p *Prog) newBareVC(pkgPath, name string) *VC {
	var pk *types.Package
	fi := &FuncInfo{Key: name}
	if pp, ok := p.pkgs[pkgPath]; ok {
		pk = pp.Types
		fi.Pkg = pp
	} else {
		for _, pp := range p.pkgs {
			if fi.Pkg == nil || len(pp.PkgPath) < len(fi.Pkg.PkgPath) {
				fi.Pkg = pp
				pk = pp.Types
			}
		}
	}
	vc := &VC{p: p, u: p.u, fi: fi, spec: &FuncSpec{Key: name, Loops: map[int]*LoopSpec{}, Opts: map[string]string{}}, info: fi.Pkg.TypesInfo, pkg: pk,
		declSeen: map[string]bool{}, heap0: map[string]Term{}, heapSort: map[string]string{}, heapElemT: map[string]types.Type{},
		counters: map[string]int{}, params: map[string]types.Object{}, paramTerm: map[string]Term{},
		closures: map[string]*funcVal{}, usedLoops: map[int]bool{}, usedSpecs: map[string]bool{}, usedAnchors: map[string]bool{}, lazyHeaps: map[string]Term{}, havocKnown: map[string]map[string]bool{}, ts: TSubst{}}
	vc.declare("alloc@0", "Int")
	vc.base = append(vc.base, "(>= alloc@0 1)")
	return vc
}

func newState() *State {
	return &State{vars: map[types.Object]Term{}, heap: map[string]Term{}, alloc: "alloc@0", ghost: map[string]Term{},
		alias: map[types.Object]*aliasOrigin{}, freshSl: map[types.Object]bool{}, cells: map[types.Object]Term{}}
}

func (p *Prog) lemmaObligation(f *GlobalFact) (o *Obligation, err error) {
	defer func() {
		if r := recover(); r != nil {
			if e, ok := r.(error); ok {
				err = fmt.Errorf("lemma %s: %v", f.Name, e)
				return
			}
			panic(r)
		}
	}()
	vc := p.newBareVC(f.Pkg, "lemma/"+f.Name)
	st := newState()
	vc.entry = st
	env := &SpecEnv{vc: vc, st: st, old: st, vars: map[string]Term{}, pkg: vc.pkg}
	g := env.evalBool(f.Expr)
	// trusted axioms are available to lemmas
	var facts []string
	facts = append(facts, vc.base...)
	facts = append(facts, st.facts...)
	for _, a := range p.con.Facts {
		if a.Kind == "axiom" && !a.Hidden {
			aenv := &SpecEnv{vc: vc, st: st, old: st, vars: map[string]Term{}, pkg: vc.pkg}
			if pk, ok := p.pkgs[a.Pkg]; ok {
				aenv.pkg = pk.Types
			}
			facts = append(facts, aenv.evalBool(a.Expr))
		}
	}
	o = &Obligation{Name: "lemma/" + f.Name, Kind: "lemma", Props: f.Props, Func: "::lemma/" + f.Name, Text: f.Text, Where: f.Where, Facts: facts, Goal: g, Decls: vc.decls}
	o.vc = vc
	return o, nil
}

// restrictedCheck re-proves a failed obligation outside the input class of a known finding, and
// checks that it still fails inside the class (canary).
func (p *Prog) restrictedCheck(o *Obligation, kf *KnownFinding, dir string, timeoutS int) (okOutside, failsInside bool, err error) {
	defer func() {
		if r := recover(); r != nil {
			if e, ok := r.(error); ok {
				err = e
				return
			}
			panic(r)
		}
	}()
	if o.vc == nil {
		return false, false, fmt.Errorf("no context for %s", o.Name)
	}
	vc := o.vc
	ex, perr := parseSpecExpr(kf.Class)
	if perr != nil {
		return false, false, perr
	}
	st := o.st
	if st == nil {
		st = vc.entry
	}
	env := vc.specEnv(st, vc.entry)
	for n, t := range vc.paramTerm {
		env.vars[n] = t
	}
	cls := env.evalBool(ex)
	mk := func(suffix, extra string) *Obligation {
		n := *o
		n.Name = o.Name + suffix
		n.Facts = append(append([]string(nil), o.Facts...), extra)
		n.Decls = vc.decls
		n.Result = nil
		return &n
	}
	outside := mk("~outside", not(cls))
	inside := mk("~inside", cls)
	r1 := p.u.Solve(outside, dir, timeoutS, false)
	r2 := p.u.Solve(inside, dir, timeoutS, false)
	return r1.Status == "unsat", r2.Status != "unsat", nil
}

func (p *Prog) makeReplay(o *Obligation, prop, repo, outDir string) *ReplayRecord {
	r := o.Result
	rep := &ReplayRecord{Property: prop, Obligation: o.Name, Kind: o.Kind, Function: o.Func, Clause: o.Text, Where: o.Where,
		Solver: r.Status, Backend: r.Backend, SolverOut: truncate(r.Output, 6000), SMTFile: r.File}
	target := o
	if r.Status != "sat" {
		// candidate-model search: drop the quantified assumptions (weaker problem, more models); a model found
		// this way is only a candidate and counts solely if it reproduces on the real code.
		rel := p.relax(o)
		rr := p.u.Solve(rel, filepath.Dir(r.File), 8, false)
		if rr.Status != "sat" {
			rep.Note = "the obligation stopped proving; the solver returned no model (" + r.Status + "; relaxed search: " + rr.Status + ")"
			return rep
		}
		rel.Result = rr
		target = rel
		rep.Note = "candidate model from the relaxed query (quantified assumptions dropped); "
	}
	ok, note := p.tryReplay(target, rep, repo, filepath.Join(outDir, "replay", prop))
	rep.Reproduced = ok
	rep.Note += note
	return rep
}

var _ = strings.TrimSpace

// relax drops quantified facts and bounds the string inputs.
func (p *Prog) relax(o *Obligation) *Obligation {
	n := *o
	n.Name = o.Name + "~relaxed"
	n.Relaxed = true
	n.Result = nil
	n.Facts = nil
	var split func(f string)
	split = func(f string) {
		if strings.HasPrefix(f, "(and ") && balanced(f[5:len(f)-1]) {
			for _, part := range splitSExprs(f[5 : len(f)-1]) {
				split(part)
			}
			return
		}
		if strings.Contains(f, "(forall ") || strings.Contains(f, "(exists ") {
			return
		}
		n.Facts = append(n.Facts, f)
	}
	for _, f := range o.Facts {
		split(f)
	}
	if o.vc != nil {
		n.Decls = o.vc.decls
	}
	// keep model sizes within what the replay generator materialises
	for _, m := range reSliceLen.FindAllStringSubmatch(strings.Join(n.Facts, " ")+" "+n.Goal, -1) {
		key := m[0]
		if strings.HasPrefix(m[2], "p$") {
			n.Facts = append(n.Facts, fmt.Sprintf("(and (<= 0 %s) (<= %s 4))", key, key))
		}
	}
	// interface-typed inputs hold one of the known dynamic types
	if o.vc != nil {
		for _, in := range o.vc.inputs {
			if in.Term.Sort != "Iface" {
				continue
			}
			it, _ := under(in.Term.T).(*types.Interface)
			alts := []string{eq("(itag "+in.Term.S+")", "0")}
			for _, tt := range p.u.tagTypes {
				if it != nil && types.Implements(tt, it) {
					alts = append(alts, eq("(itag "+in.Term.S+")", fmt.Sprint(p.u.Tag(tt))))
				}
			}
			n.Facts = append(n.Facts, or(alts...), "(>= (ipay "+in.Term.S+") 0)")
		}
	}
	// sanity of strings mentioned in the query
	seen := map[string]bool{}
	text := strings.Join(n.Facts, " ") + " " + n.Goal
	for _, m := range reStrLen.FindAllStringSubmatch(text, -1) {
		if !seen[m[1]] && balanced(m[1]) {
			seen[m[1]] = true
			n.Facts = append(n.Facts, fmt.Sprintf("(and (<= 0 (s.len %s)) (<= (s.len %s) 80))", m[1], m[1]))
		}
	}
	return &n
}

func splitSExprs(s string) []string {
	var out []string
	s = strings.TrimSpace(s)
	for s != "" {
		e := firstSExpr(s)
		if e == "" {
			break
		}
		out = append(out, e)
		s = strings.TrimSpace(s[len(e):])
	}
	return out
}
