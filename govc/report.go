package main

import (
	"time"
	"fmt"
	"go/types"
	"os"
	"path/filepath"
	"regexp"
	"strings"
)

var reLenHead = regexp.MustCompile(`\(len_(Slice_[A-Za-z0-9_]+) `)

func sliceTermAfter(text, head string) string { return "" }

var reMapCard = regexp.MustCompile(`\(select (Mc\$[^\s()]+@0) `)

// keySortOfDom finds the key sort of a map-domain heap from the obligation's declarations.
func keySortOfDom(o *Obligation, dom string) string {
	for _, d := range o.Decls {
		if strings.HasPrefix(d, "(declare-fun "+dom+" ") {
			// (declare-fun NAME () (Array Int (Array K Bool)))
			i := strings.Index(d, "(Array Int (Array ")
			if i >= 0 {
				return firstSExpr(d[i+len("(Array Int (Array "):])
			}
		}
	}
	return ""
}

var reSliceLen = regexp.MustCompile(`\(len_(Slice_[A-Za-z0-9_]+) ([^\s()]+)\)`)
var reStrLen = regexp.MustCompile(`\(str\.len ([^\s()]+|\([^()]*\))\)`)

type ReplayRecord struct {
	Property   string            `json:"property"`
	Obligation string            `json:"obligation"`
	Kind       string            `json:"kind"`
	Function   string            `json:"function"`
	Clause     string            `json:"clause"`
	Where      string            `json:"where"`
	Solver     string            `json:"solver_status"`
	Backend    string            `json:"backend"`
	SolverOut  string            `json:"solver_output"`
	SMTFile    string            `json:"smt_file"`
	Witness    map[string]string `json:"witness,omitempty"`
	ReplayCmd  string            `json:"replay_cmd,omitempty"`
	ReplayTest string            `json:"replay_test,omitempty"`
	ReplayOut  string            `json:"replay_output,omitempty"`
	Reproduced bool              `json:"reproduced"`
	Note       string            `json:"note"`
}

// lemmaObligations: global lemmas tagged with prop.
func (p *Prog) lemmaObligations(prop string) ([]*Obligation, error) {
	var out []*Obligation
	for _, f := range p.con.Facts {
		if f.Kind != "lemma" || !hasProp(f.Props, prop) {
			continue
		}
		o, err := p.lemmaObligation(f)
		if err != nil {
			return nil, err
		}
		out = append(out, o)
	}
	return out, nil
}

func (p *Prog) newBareVC(pkgPath, name string) *VC {
	var pk *types.Package
	fi := &FuncInfo{Key: name}
	if pp, ok := p.pkgs[pkgPath]; ok {
		pk = pp.Types
		fi.Pkg = pp
	} else {
		for _, pp := range p.pkgs {
			if fi.Pkg == nil || len(pp.PkgPath) < len(fi.Pkg.PkgPath) {
				fi.Pkg = pp
				pk = pp.Types
			}
		}
	}
	vc := &VC{p: p, u: p.u, fi: fi, spec: &FuncSpec{Key: name, Loops: map[int]*LoopSpec{}, Opts: map[string]string{}}, info: fi.Pkg.TypesInfo, pkg: pk,
		declSeen: map[string]bool{}, heap0: map[string]Term{}, heapSort: map[string]string{}, heapElemT: map[string]types.Type{},
		counters: map[string]int{}, params: map[string]types.Object{}, paramTerm: map[string]Term{},
		closures: map[string]*funcVal{}, usedLoops: map[int]bool{}, usedSpecs: map[string]bool{}, usedAnchors: map[string]bool{}, lazyHeaps: map[string]Term{}, havocKnown: map[string]map[string]bool{}, ts: TSubst{}}
	vc.declare("alloc@0", "Int")
	vc.base = append(vc.base, "(>= alloc@0 1)")
	return vc
}

func newState() *State {
	return &State{vars: map[types.Object]Term{}, heap: map[string]Term{}, alloc: "alloc@0", ghost: map[string]Term{},
		alias: map[types.Object]*aliasOrigin{}, freshSl: map[types.Object]bool{}, cells: map[types.Object]Term{}}
}

func (p *Prog) lemmaObligation(f *GlobalFact) (o *Obligation, err error) {
	defer func() {
		if r := recover(); r != nil {
			if e, ok := r.(error); ok {
				err = fmt.Errorf("lemma %s: %v", f.Name, e)
				return
			}
			panic(r)
		}
	}()
	vc := p.newBareVC(f.Pkg, "lemma/"+f.Name)
	st := newState()
	vc.entry = st
	env := &SpecEnv{vc: vc, st: st, old: st, vars: map[string]Term{}, pkg: vc.pkg}
	g := env.evalBool(f.Expr)
	// trusted axioms are available to lemmas
	var facts []string
	facts = append(facts, vc.base...)
	facts = append(facts, st.facts...)
	for _, a := range p.con.Facts {
		if a.Kind == "axiom" && !a.Hidden {
			aenv := &SpecEnv{vc: vc, st: st, old: st, vars: map[string]Term{}, pkg: vc.pkg}
			if pk, ok := p.pkgs[a.Pkg]; ok {
				aenv.pkg = pk.Types
			}
			facts = append(facts, aenv.evalBool(a.Expr))
		}
	}
	o = &Obligation{Name: "lemma/" + f.Name, Kind: "lemma", Props: f.Props, Func: "::lemma/" + f.Name, Text: f.Text, Where: f.Where, Facts: facts, Goal: g, Decls: vc.decls}
	o.vc = vc
	return o, nil
}

// restrictedCheck re-proves a failed obligation outside the input class of a known finding, and
// checks that it still fails inside the class (canary).
func (p *Prog) restrictedCheck(o *Obligation, kf *KnownFinding, dir string, timeoutS int) (okOutside, failsInside bool, err error) {
	defer func() {
		if r := recover(); r != nil {
			if e, ok := r.(error); ok {
				err = e
				return
			}
			panic(r)
		}
	}()
	if o.vc == nil {
		return false, false, fmt.Errorf("no context for %s", o.Name)
	}
	vc := o.vc
	ex, perr := parseSpecExpr(kf.Class)
	if perr != nil {
		return false, false, perr
	}
	st := o.st
	if st == nil {
		st = vc.entry
	}
	env := vc.specEnv(st, vc.entry)
	for n, t := range vc.paramTerm {
		env.vars[n] = t
	}
	cls := env.evalBool(ex)
	mk := func(suffix, extra string) *Obligation {
		n := *o
		n.Name = o.Name + suffix
		n.Facts = append(append([]string(nil), o.Facts...), extra)
		n.Decls = vc.decls
		n.Result = nil
		return &n
	}
	outside := mk("~outside", not(cls))
	inside := mk("~inside", cls)
	r1 := p.u.Solve(outside, dir, timeoutS, false)
	if (r1.Status == "unknown" || r1.Status == "timeout") && os.Getenv("GOVC_NO_RETRY") == "" {
		// same second chance as for ordinary obligations: an undecided re-proof outside the listed class would be
		// reported as a new violation
		p.u.retryLite = true
		if r := p.u.Solve(outside, dir, retryFactor*timeoutS, false); r.Status == "unsat" {
			r.Backend += "+retry"
			r1 = r
		}
		p.u.retryLite = false
	}
	// the canary (does the finding still reproduce inside its class?) only feeds a note: the short race is enough
	p.u.stage1Only = true
	r2 := p.u.Solve(inside, dir, timeoutS, false)
	p.u.stage1Only = false
	if os.Getenv("GOVC_SLOW") != "" {
		fmt.Printf("  restricted re-proof %s: outside %s %d ms stage%d %s; inside %s %d ms\n", o.Name, r1.Status, r1.Ms, r1.Stage, r1.Backend, r2.Status, r2.Ms)
	}
	return r1.Status == "unsat", r2.Status != "unsat", nil
}

func (p *Prog) makeReplay(o *Obligation, prop, repo, outDir string) *ReplayRecord {
	r := o.Result
	rep := &ReplayRecord{Property: prop, Obligation: o.Name, Kind: o.Kind, Function: o.Func, Clause: o.Text, Where: o.Where,
		Solver: r.Status, Backend: r.Backend, SolverOut: truncate(r.Output, 6000), SMTFile: r.File}
	target := o
	if os.Getenv("GOVC_DEV_NOSEARCH") != "" {
		rep.Note = "replay disabled (development run)"
		return rep
	}
	if !p.replayDeadline.IsZero() && time.Now().After(p.replayDeadline) {
		rep.Note = "the obligation stopped proving (" + r.Status + "); the time budget of this run for counterexample search was used up by earlier failures, none attempted for this one"
		return rep
	}
	if r.Status != "sat" {
		// candidate-model search: drop the quantified assumptions (weaker problem, more models); a model found
		// this way is only a candidate and counts solely if it reproduces on the real code.
		rel := p.relax(o)
		smtDir := filepath.Dir(r.File)
		if r.File == "" || smtDir == "." || !filepath.IsAbs(smtDir) {
			smtDir = filepath.Join(outDir, "smt", prop)
			os.MkdirAll(smtDir, 0o755)
		}
		rr := p.u.Solve(rel, smtDir, 8, false)
		if rr.Status != "sat" {
			rep.Note = "the obligation stopped proving; the solver returned no model (" + r.Status + "; relaxed search: " + rr.Status + ")"
			if ok2, note2 := p.searchCounterexample(o, rep, repo, filepath.Join(outDir, "replay", prop)); ok2 {
				rep.Reproduced = true
				rep.Note = note2
			} else if note2 != "" {
				rep.Note += " | bounded search: " + note2
			}
			return rep
		}
		rel.Result = rr
		target = rel
		rep.Note = "candidate model from the relaxed query (quantified assumptions dropped); "
	}
	ok, note := p.tryReplay(target, rep, repo, filepath.Join(outDir, "replay", prop))
	rep.Reproduced = ok
	rep.Note += note
	if !ok {
		// bounded counterexample search: the same clause on the function with its loops unrolled (exact semantics
		// for small inputs); a model found there counts only if it replays on the real code
		if ok2, note2 := p.searchCounterexample(o, rep, repo, filepath.Join(outDir, "replay", prop)); ok2 {
			rep.Reproduced = true
			rep.Note = note2
		} else if note2 != "" {
			rep.Note += " | bounded search: " + note2
		}
	}
	return rep
}

var _ = strings.TrimSpace

// relax drops quantified facts and bounds the string inputs.
func (p *Prog) relax(o *Obligation) *Obligation {
	n := *o
	n.Name = o.Name + "~relaxed"
	n.Relaxed = true
	n.Result = nil
	n.Facts = nil
	var split func(f string)
	split = func(f string) {
		if strings.HasPrefix(f, "(and ") && balanced(f[5:len(f)-1]) {
			for _, part := range splitSExprs(f[5 : len(f)-1]) {
				split(part)
			}
			return
		}
		nq := strings.Count(f, "(forall ") + strings.Count(f, "(exists ")
		if nq > 1 || (nq == 1 && len(f) > 900) {
			return
		}
		n.Facts = append(n.Facts, f)
	}
	for _, f := range o.Facts {
		split(f)
	}
	if o.vc != nil {
		n.Decls = o.vc.decls
	}
	// maps: tie len(m) to the keys the query mentions (candidate models list exactly those keys)
	{
		text := strings.Join(n.Facts, "\n") + "\n" + n.Goal
		seenM := map[string]bool{}
		for _, m := range reMapCard.FindAllStringSubmatchIndex(text, -1) {
			heap := text[m[2]:m[3]] // Mc$K$V@0
			rest := text[m[1]:]
			x := firstSExpr(strings.TrimLeft(rest, " "))
			if x == "" || seenM[heap+"|"+x] || strings.Contains(x, "!q") || strings.Contains(x, "r!") {
				continue
			}
			seenM[heap+"|"+x] = true
			dom := "Md" + strings.TrimPrefix(heap, "Mc")
			gb := &goBuilder{o: &n}
			keys := gb.keyTerms(dom)
			if len(keys) > 6 {
				keys = keys[:6]
			}
			var terms, alts []string
			for i, k := range keys {
				conds := []string{fmt.Sprintf("(select (select %s %s) %s)", dom, x, k)}
				for j := 0; j < i; j++ {
					conds = append(conds, fmt.Sprintf("(not (and (= %s %s) (select (select %s %s) %s)))", keys[j], k, dom, x, keys[j]))
				}
				terms = append(terms, "(ite "+and(conds...)+" 1 0)")
				alts = append(alts, "(= k!m "+k+")")
			}
			sum := "0"
			if len(terms) == 1 {
				sum = terms[0]
			} else if len(terms) > 1 {
				sum = "(+ " + strings.Join(terms, " ") + ")"
			}
			n.Facts = append(n.Facts, fmt.Sprintf("(= (select %s %s) %s)", heap, x, sum))
			if ks := keySortOfDom(o, dom); ks != "" {
				n.Facts = append(n.Facts, fmt.Sprintf("(forall ((k!m %s)) (=> (select (select %s %s) k!m) %s))", ks, dom, x, or(alts...)))
			}
		}
	}
	// keep model sizes within what the replay generator materialises
	for _, m := range reSliceLen.FindAllStringSubmatch(strings.Join(n.Facts, " ")+" "+n.Goal, -1) {
		key := m[0]
		if tm := sliceTermAfter(strings.Join(n.Facts, " ")+" "+n.Goal, m[0]); tm != "" {
			_ = tm
		}
		if strings.HasPrefix(m[2], "p$") {
			n.Facts = append(n.Facts, fmt.Sprintf("(and (<= 0 %s) (<= %s 4))", key, key))
		}
	}
	// slice values mentioned in the query: nil-ness and length are consistent; input-side slices stay small
	{
		text := strings.Join(n.Facts, "\n") + "\n" + n.Goal
		seenS := map[string]bool{}
		for _, loc := range reLenHead.FindAllStringSubmatchIndex(text, -1) {
			sortName := text[loc[2]:loc[3]]
			term := firstSExpr(strings.TrimLeft(text[loc[1]:], " "))
			if term == "" || seenS[sortName+"|"+term] || strings.Contains(term, "!q") || strings.Contains(term, "wf!") || strings.Contains(term, "i!") || strings.Contains(term, "k!") || strings.Contains(term, "r!") {
				continue
			}
			seenS[sortName+"|"+term] = true
			ln := "(len_" + sortName + " " + term + ")"
			n.Facts = append(n.Facts, fmt.Sprintf("(and (>= %s 0) (=> (not (nn_%s %s)) (= %s 0)))", ln, sortName, term, ln))
			if strings.Contains(term, "@0") && !strings.Contains(term, "ret_") {
				n.Facts = append(n.Facts, fmt.Sprintf("(<= %s 4)", ln))
			}
		}
	}
	// interface-typed inputs hold one of the known dynamic types
	if o.vc != nil {
		for _, in := range o.vc.inputs {
			if in.Term.Sort != "Iface" {
				continue
			}
			it, _ := under(in.Term.T).(*types.Interface)
			alts := []string{eq("(itag "+in.Term.S+")", "0")}
			for _, tt := range p.u.tagTypes {
				if it != nil && types.Implements(tt, it) {
					alts = append(alts, eq("(itag "+in.Term.S+")", fmt.Sprint(p.u.Tag(tt))))
				}
			}
			n.Facts = append(n.Facts, or(alts...), "(>= (ipay "+in.Term.S+") 0)")
		}
	}
	// sanity of strings mentioned in the query
	seen := map[string]bool{}
	text := strings.Join(n.Facts, " ") + " " + n.Goal
	for _, m := range reStrLen.FindAllStringSubmatch(text, -1) {
		if !seen[m[1]] && balanced(m[1]) {
			seen[m[1]] = true
			bound := 80
			if o.vc != nil && o.vc.unroll > 0 {
				bound = 3
			}
			n.Facts = append(n.Facts, fmt.Sprintf("(and (<= 0 (s.len %s)) (<= (s.len %s) %d))", m[1], m[1], bound))
		}
	}
	return &n
}

func splitSExprs(s string) []string {
	var out []string
	s = strings.TrimSpace(s)
	for s != "" {
		e := firstSExpr(s)
		if e == "" {
			break
		}
		out = append(out, e)
		s = strings.TrimSpace(s[len(e):])
	}
	return out
}

// searchCounterexample re-generates the obligations of the function with loops unrolled (k = 3) and no loop
// annotations, and looks for a model of the same clause that replays on the real code.
func (p *Prog) searchCounterexample(o *Obligation, rep *ReplayRecord, repo, dir string) (bool, string) {
	if os.Getenv("GOVC_DEV_NOSEARCH") != "" {
		return false, "counterexample search disabled (development run)"
	}
	fuzzNote := ""
	if ok, note := p.fuzzReplay(o, rep, repo, dir, p.seed); ok {
		return true, note
	} else {
		fuzzNote = note
	}
	ok, note := p.searchUnrolled(o, rep, repo, dir)
	if ok {
		return true, note
	}
	return false, strings.TrimSpace(fuzzNote + "; " + note)
}

func (p *Prog) searchUnrolled(o *Obligation, rep *ReplayRecord, repo, dir string) (bool, string) {
	if o.vc == nil || o.vc.fi == nil || o.vc.fi.Decl == nil || (o.Kind != "post" && !strings.HasPrefix(o.Kind, "safe-")) {
		return false, ""
	}
	hasLoop := len(numberLoops(o.vc.fi.Body())) > 0
	if !hasLoop {
		return false, ""
	}
	spec := *o.vc.spec
	spec.Loops = map[int]*LoopSpec{}
	spec.Asserts = nil
	res := p.verifyFunc(o.vc.fi, &spec, true, 3)
	if res.Err != nil {
		return false, "unrolled VC generation failed: " + res.Err.Error()
	}
	tried := 0
	var cands []*Obligation
	for _, c := range res.Obls {
		if c.Kind != o.Kind || c.Text != o.Text || c.Result != nil {
			continue
		}
		if len(cands) >= 400 {
			break
		}
		cands = append(cands, p.relax(c))
	}
	tried = len(cands)
	p.u.SolveAllQuick(cands, dir, 4, 8)
	replays := 0
	for _, rel := range cands {
		if os.Getenv("GOVC_DEBUG") != "" {
			fmt.Fprintf(os.Stderr, "cex-search %s: %s\n", rel.Name, rel.Result.Status)
		}
		if rel.Result.Status != "sat" || replays >= 8 {
			continue
		}
		replays++
		sub := &ReplayRecord{}
		ok, note := p.tryReplay(rel, sub, repo, dir)
		if os.Getenv("GOVC_DEBUG") != "" {
			fmt.Fprintf(os.Stderr, "   replay: %v %s | %v\n", ok, note, sub.Witness)
		}
		if ok {
			rep.Witness, rep.ReplayCmd, rep.ReplayTest, rep.ReplayOut = sub.Witness, sub.ReplayCmd, sub.ReplayTest, sub.ReplayOut
			return true, "counterexample found by bounded search (loops unrolled 3 times, candidate model validated by replay): " + note
		}
	}
	return false, fmt.Sprintf("no replayable counterexample among %d unrolled paths (unwinding bound 3)", tried)
}
