package main

import (
	"fmt"
	"go/ast"
	"go/token"
	"go/types"
	"sort"
	"strings"
)

func (vc *VC) evalCall(st *State, call *ast.CallExpr) []Term {
	return vc.evalCallWith(st, call, nil, nil, nil)
}

// evalCallWith evaluates a call; recv/args/fn may be pre-evaluated (defer).
func (vc *VC) evalCallWith(st *State, call *ast.CallExpr, preRecv *Term, preArgs []Term, preFn *Term) []Term {
	// &x.f arguments are passed as a temporary cell holding the field's value; whatever the callee stored there
	// is copied back into the field when the call returns (no interior pointers in the memory model)
	n := len(st.fieldWB)
	rets := vc.evalCallWith0(st, call, preRecv, preArgs, preFn)
	if len(st.fieldWB) > n {
		wbs := append([]fieldWriteBack(nil), st.fieldWB[n:]...)
		st.fieldWB = st.fieldWB[:n]
		for _, wb := range wbs {
			pt := under(wb.cell.T).(*types.Pointer)
			vc.assign(st, wb.lhs, vc.loadDeref(st, vc.ts.apply(pt.Elem()), wb.cell.S))
		}
	}
	return rets
}

type fieldWriteBack struct {
	cell Term
	lhs  ast.Expr
}

func (vc *VC) evalCallWith0(st *State, call *ast.CallExpr, preRecv *Term, preArgs []Term, preFn *Term) []Term {
	// conversion?
	if tv, ok := vc.info.Types[call.Fun]; ok && tv.IsType() {
		to := vc.ts.apply(tv.Type)
		v := vc.evalExpr(st, call.Args[0])
		return []Term{vc.convert(st, v, to, call)}
	}
	fun := ast.Unparen(call.Fun)
	// instantiated generic: strip index
	switch f := fun.(type) {
	case *ast.IndexExpr:
		if id := identOf(f.X); id != nil {
			if _, ok := vc.info.Instances[id]; ok {
				fun = f.X
			}
		}
	case *ast.IndexListExpr:
		fun = f.X
	}
	// builtins
	if id, ok := fun.(*ast.Ident); ok {
		if b, ok := vc.info.Uses[id].(*types.Builtin); ok {
			return vc.evalBuiltin(st, b.Name(), call, preArgs)
		}
	}
	evalArgs := func() []Term {
		if preArgs != nil {
			return preArgs
		}
		args := make([]Term, len(call.Args))
		for i, a := range call.Args {
			// single multi-value call as argument list is not supported
			args[i] = vc.evalExpr(st, a)
		}
		return args
	}
	// immediately invoked closure
	if lit, ok := fun.(*ast.FuncLit); ok {
		outs := vc.inlineClosure(st, lit, evalArgs())
		if len(outs) != 1 {
			vc.fail(call, "immediately invoked closure with %d exits in expression context", len(outs))
		}
		*st = *outs[0]
		var rets []Term
		for _, rv := range vc.closureResults(lit, vc.typeOf(lit).(*types.Signature)) {
			rets = append(rets, st.vars[rv])
		}
		return rets
	}
	var callee *types.Func
	var recv *Term
	var recvExpr ast.Expr
	switch f := fun.(type) {
	case *ast.Ident:
		switch o := vc.info.Uses[f].(type) {
		case *types.Func:
			callee = o
		case *types.Var:
			fv := preFn
			if fv == nil {
				t := vc.evalExpr(st, f)
				fv = &t
			}
			return vc.applyFuncValue(st, *fv, evalArgs(), call)
		}
	case *ast.SelectorExpr:
		if sel, ok := vc.info.Selections[f]; ok {
			switch sel.Kind() {
			case types.MethodVal:
				callee = sel.Obj().(*types.Func)
				recvExpr = f.X
				if preRecv != nil {
					recv = preRecv
				} else {
					r := vc.evalExpr(st, f.X)
					// implicit field path for promoted methods
					if len(sel.Index()) > 1 {
						cur := r
						for _, idx := range sel.Index()[:len(sel.Index())-1] {
							t := cur.T
							if pt, ok := under(t).(*types.Pointer); ok {
								et := vc.ts.apply(pt.Elem())
								cur = vc.loadField(st, et, under(et).(*types.Struct).Field(idx), cur.S)
							} else {
								ff, _ := vc.selectField(st, cur, under(t).(*types.Struct).Field(idx).Name())
								cur = ff
							}
						}
						r = cur
					}
					recv = &r
				}
			case types.FieldVal:
				fv := vc.evalExpr(st, f)
				return vc.applyFuncValue(st, fv, evalArgs(), call)
			}
		} else if o, ok := vc.info.Uses[f.Sel].(*types.Func); ok {
			callee = o
		} else if _, ok := vc.info.Uses[f.Sel].(*types.Var); ok {
			fv := vc.evalExpr(st, f)
			return vc.applyFuncValue(st, fv, evalArgs(), call)
		}
	default:
		// call of a call result etc: m(h) where m is an expression
		fv := vc.evalExpr(st, fun)
		return vc.applyFuncValue(st, fv, evalArgs(), call)
	}
	if callee == nil {
		vc.fail(call, "cannot resolve callee of %s", exprString(call))
	}
	// sync.Mutex / sync.RWMutex operations on a field: ghost lock state keyed by the owner object
	if callee.Pkg() != nil && callee.Pkg().Path() == "sync" && recvExpr != nil {
		if handled := vc.lockOp(st, callee, recvExpr, call); handled {
			return nil
		}
	}
	// a method of a type-parameter constraint / interface called on a receiver whose (substituted) type is
	// concrete: dispatch statically to the concrete method
	if recv != nil {
		if csig := callee.Type().(*types.Signature); csig.Recv() != nil && isInterface(csig.Recv().Type()) && !isInterface(recv.T) {
			obj, _, _ := types.LookupFieldOrMethod(recv.T, true, vc.pkg, callee.Name())
			if cm, ok := obj.(*types.Func); ok {
				callee = cm
			}
		}
	}
	// receiver adjustment: method with pointer receiver called on addressable value, or value receiver on pointer
	sig := callee.Type().(*types.Signature)
	if recv != nil && sig.Recv() != nil {
		rt := sig.Recv().Type()
		_, wantPtr := under(rt).(*types.Pointer)
		_, havePtr := under(recv.T).(*types.Pointer)
		if wantPtr && !havePtr && !isInterface(recv.T) {
			// (&x).M(): take address — supported only for locals via cells
			if id, ok := ast.Unparen(recvExpr).(*ast.Ident); ok {
				a := vc.evalAddr(st, &ast.UnaryExpr{Op: token.AND, X: id})
				recv = &a
			} else {
				vc.fail(call, "method with pointer receiver on non-pointer value %s", exprString(recvExpr))
			}
		} else if !wantPtr && havePtr && !isInterface(rt) {
			pt := under(recv.T).(*types.Pointer)
			vc.oblige(st, "safe-nil", exprString(call.Fun), vc.pos(call), not(eq(recv.S, "0")), nil)
			d := vc.loadDeref(st, vc.ts.apply(pt.Elem()), recv.S)
			recv = &d
		}
	}
	// instantiate generic signature at this call site
	isig := sig
	if id := identOf(fun); id != nil {
		if inst, ok := vc.info.Instances[id]; ok {
			if s, ok := inst.Type.(*types.Signature); ok {
				isig = vc.substSig(s)
			}
		}
	}
	if recv != nil && isig.TypeParams().Len() == 0 && sig.RecvTypeParams().Len() > 0 {
		// method of a generic type: substitute receiver type args
		if named := namedOf(recv.T); named != nil && named.TypeArgs().Len() == sig.RecvTypeParams().Len() {
			m := TSubst{}
			for i := 0; i < sig.RecvTypeParams().Len(); i++ {
				m[sig.RecvTypeParams().At(i)] = named.TypeArgs().At(i)
			}
			isig = substSignature(sig, m)
		}
	}
	args := vc.adaptVariadic(st, isig, call, evalArgs())
	if r, ok := vc.builtinExtern(st, callee, recv, args, call); ok {
		return r
	}
	spec := vc.p.specFor(callee)
	if spec == nil {
		if vc.pure > 0 {
			vc.fail(call, "callee %s has no contract (used under a binder)", callee.FullName())
		}
		// unknown callee: the most conservative abstraction (everything mutable may change, results arbitrary).
		// Obligations of this function that then fail are reported as undecided unless a counterexample replays.
		if vc.looksPure(callee, isig, recv) {
			// external function over plain values (strings, numbers, slices of them): no effect on the heap we model
			vc.note("callee without contract treated as a pure function of plain values: " + callee.FullName())
		} else {
			vc.abstracted = append(vc.abstracted, callee.FullName())
			vc.note("callee without contract abstracted by havoc: " + callee.FullName() + " at " + vc.pos(call))
			vc.havocAll(st)
		}
		var rets []Term
		for i := 0; i < isig.Results().Len(); i++ {
			rt := vc.ts.apply(isig.Results().At(i).Type())
			r := vc.fresh("ret_"+callee.Name(), rt)
			st.assume(vc.u.WF(r.S, rt, st.alloc))
			rets = append(rets, r)
		}
		return rets
	}
	if vc.pure > 0 {
		env := &SpecEnv{vc: vc, st: st, old: st, vars: map[string]Term{}, pkg: vc.pkg}
		return []Term{env.expandPure(callee, recv, args, call)}
	}
	if vc.spec.Opts["nonblocking"] == "true" && vc.quiet == 0 && !spec.Pure && spec.Opts["nonblocking"] != "true" && spec.Opts["foreach"] == "" {
		if _, inRepo := vc.p.pkgs[spec.Pkg]; inRepo && spec.Kind == "func" {
			vc.oblige(st, "nonblocking", "a function declared non-blocking calls only pure or non-blocking repository functions ("+spec.Key+" is not declared non-blocking)", vc.pos(call), "false", nil)
		}
	}
	if fld := spec.Opts["foreach"]; fld != "" && recv != nil && isForeachCall(call) {
		vc.execForeach(st, call, spec, callee, *recv, fld)
		return nil
	}
	return vc.callByContract(st, spec, callee, isig, recv, args, call)
}

func namedOf(t types.Type) *types.Named {
	if pt, ok := t.(*types.Pointer); ok {
		t = pt.Elem()
	}
	n, _ := types.Unalias(t).(*types.Named)
	return n
}

func substSignature(sig *types.Signature, m TSubst) *types.Signature {
	sub := func(tu *types.Tuple) *types.Tuple {
		vs := make([]*types.Var, tu.Len())
		for i := 0; i < tu.Len(); i++ {
			v := tu.At(i)
			vs[i] = types.NewVar(v.Pos(), v.Pkg(), v.Name(), m.apply(v.Type()))
		}
		return types.NewTuple(vs...)
	}
	var recv *types.Var
	if r := sig.Recv(); r != nil {
		recv = types.NewVar(r.Pos(), r.Pkg(), r.Name(), m.apply(r.Type()))
	}
	return types.NewSignatureType(recv, nil, nil, sub(sig.Params()), sub(sig.Results()), sig.Variadic())
}

func (vc *VC) substSig(s *types.Signature) *types.Signature {
	if len(vc.ts) == 0 {
		return s
	}
	return substSignature(s, vc.ts)
}

// adaptVariadic packs variadic arguments into a slice value.
func (vc *VC) adaptVariadic(st *State, sig *types.Signature, call *ast.CallExpr, args []Term) []Term {
	if !sig.Variadic() {
		return args
	}
	n := sig.Params().Len()
	if call.Ellipsis.IsValid() {
		return args
	}
	vt := vc.ts.apply(sig.Params().At(n - 1).Type())
	et := vc.ts.apply(vt.(*types.Slice).Elem())
	es := vc.u.SortOf(et)
	extra := args[min(n-1, len(args)):]
	if len(extra) == 0 {
		return append(append([]Term(nil), args[:n-1]...), vc.u.Zero(vt))
	}
	arr := fmt.Sprintf("((as const (Array Int %s)) %s)", es, vc.u.Zero(et).S)
	for i, a := range extra {
		arr = store(arr, fmt.Sprint(i), vc.coerce(a, et).S)
	}
	packed := vc.mkSlice(vt, arr, fmt.Sprint(len(extra)), "true")
	return append(append([]Term(nil), args[:n-1]...), packed)
}

func (vc *VC) convert(st *State, v Term, to types.Type, at ast.Node) Term {
	switch {
	case isInteger(to) && (isInteger(v.T) || isFloat(v.T)):
		return vc.convertInt(v, to)
	case isFloat(to) && (isInteger(v.T) || isFloat(v.T)):
		return vc.mk(v.S, to)
	case isString(to) && isString(v.T):
		return vc.mk(v.S, to)
	case isString(to):
		if sl, ok := under(v.T).(*types.Slice); ok && isInteger(sl.Elem()) {
			// string([]byte): fresh string with the same bytes
			r := vc.fresh("str", to)
			st.assume(fmt.Sprintf("(= (s.len %s) %s)", r.S, vc.sliceLen(v)))
			st.assume(fmt.Sprintf("(forall ((i!b Int)) (! (=> (and (<= 0 i!b) (< i!b %s)) (= (s.at %s i!b) (select %s i!b))) :pattern ((s.at %s i!b))))", vc.sliceLen(v), r.S, vc.sliceArr(v), r.S))
			return r
		}
	case isInterface(to):
		return vc.coerce(v, to)
	}
	if sl, ok := under(to).(*types.Slice); ok && isString(v.T) && isInteger(sl.Elem()) {
		// []byte(s)
		a := vc.freshSort("bytes", "(Array Int Int)")
		st.assume(fmt.Sprintf("(forall ((i!b Int)) (! (= (select %s i!b) (s.at %s i!b)) :pattern ((select %s i!b))))", a.S, v.S, a.S))
		return vc.mkSlice(to, a.S, "(s.len "+v.S+")", "true")
	}
	if vc.u.SortOf(to) == v.Sort {
		r := v
		r.T = to
		return r
	}
	vc.fail(at, "unsupported conversion %v -> %v", v.T, to)
	return Term{}
}

func (vc *VC) evalBuiltin(st *State, name string, call *ast.CallExpr, preArgs []Term) []Term {
	arg := func(i int) Term {
		if preArgs != nil {
			return preArgs[i]
		}
		return vc.evalExpr(st, call.Args[i])
	}
	switch name {
	case "len":
		return []Term{vc.lenOf(st, arg(0))}
	case "cap":
		x := arg(0)
		if _, ok := under(x.T).(*types.Chan); ok {
			return []Term{intTerm(vc.chanCap(st, x.S))}
		}
		// capacity is not modelled: any value >= len
		c := vc.freshSort("cap", "Int")
		st.assume("(>= " + c.S + " " + vc.lenOf(st, x).S + ")")
		return []Term{intTerm(c.S)}
	case "min", "max":
		a := arg(0)
		for i := 1; i < len(call.Args); i++ {
			b := arg(i)
			op := "<="
			if name == "max" {
				op = ">="
			}
			a = vc.mk(ite("("+op+" "+a.S+" "+b.S+")", a.S, b.S), vc.typeOf(call))
		}
		return []Term{a}
	case "new":
		t := vc.typeOf(call)
		et := vc.ts.apply(under(t).(*types.Pointer).Elem())
		r := vc.alloc(st, t)
		vc.storeDeref(st, et, r.S, vc.u.Zero(et))
		return []Term{r}
	case "make":
		t := vc.typeOf(call)
		switch tt := under(t).(type) {
		case *types.Map:
			return []Term{vc.mapNew(st, t)}
		case *types.Slice:
			n := arg(1)
			et := vc.ts.apply(tt.Elem())
			es := vc.u.SortOf(et)
			vc.oblige(st, "safe-make", exprString(call), vc.pos(call), "(>= "+n.S+" 0)", nil)
			if len(call.Args) == 3 {
				// make([]T, len, cap)
				c := arg(2)
				vc.oblige(st, "safe-make", exprString(call), vc.pos(call), "(<= "+n.S+" "+c.S+")", nil)
			}
			arr := fmt.Sprintf("((as const (Array Int %s)) %s)", es, vc.u.Zero(et).S)
			return []Term{vc.mkSlice(t, arr, n.S, "true")}
		case *types.Chan:
			r := vc.alloc(st, t)
			ci := vc.chanInfo(t)
			capT := "0"
			if len(call.Args) > 1 {
				c := arg(1)
				vc.oblige(st, "safe-make", exprString(call), vc.pos(call), "(>= "+c.S+" 0)", nil)
				capT = c.S
			}
			bt := types.NewSlice(ci.E)
			h := vc.heapGet(st, ci.bn, ci.bsort, bt)
			empty := vc.mkSlice(bt, fmt.Sprintf("((as const (Array Int %s)) %s)", ci.es, vc.u.Zero(ci.E).S), "0", "true")
			st.heap[ci.bn] = Term{S: store(h.S, r.S, empty.S), Sort: ci.bsort}
			hc := vc.heapGet(st, "Chc", "(Array Int Bool)", nil)
			st.heap["Chc"] = Term{S: store(hc.S, r.S, "false"), Sort: "(Array Int Bool)"}
			hk := vc.heapGet(st, "Chk", "(Array Int Int)", nil)
			st.heap["Chk"] = Term{S: store(hk.S, r.S, capT), Sort: "(Array Int Int)"}
			hh := vc.heapGet(st, "Chh", "(Array Int Int)", nil)
			st.heap["Chh"] = Term{S: store(hh.S, r.S, "0"), Sort: "(Array Int Int)"}
			return []Term{r}
		}
	case "append":
		s := arg(0)
		st0 := vc.typeOf(call)
		et := vc.ts.apply(under(st0).(*types.Slice).Elem())
		if call.Ellipsis.IsValid() {
			// append(s, t...): fresh array agreeing with s then t
			tt := arg(1)
			var tlen, tat string
			if isString(tt.T) {
				tlen = "(s.len " + tt.S + ")"
				tat = "(s.at " + tt.S + " (- i!a " + vc.sliceLen(s) + "))"
			} else {
				tlen = vc.sliceLen(tt)
				tat = "(select " + vc.sliceArr(tt) + " (- i!a " + vc.sliceLen(s) + "))"
			}
			es := vc.u.SortOf(et)
			a := vc.freshSort("app", "(Array Int "+es+")")
			st.assume(fmt.Sprintf("(forall ((i!a Int)) (! (=> (and (<= 0 i!a) (< i!a %s)) (= (select %s i!a) (select %s i!a))) :pattern ((select %s i!a))))", vc.sliceLen(s), a.S, vc.sliceArr(s), a.S))
			st.assume(fmt.Sprintf("(forall ((i!a Int)) (! (=> (and (<= %s i!a) (< i!a (+ %s %s))) (= (select %s i!a) %s)) :pattern ((select %s i!a))))", vc.sliceLen(s), vc.sliceLen(s), tlen, a.S, tat, a.S))
			return []Term{vc.mkSlice(st0, a.S, "(+ "+vc.sliceLen(s)+" "+tlen+")", or(vc.sliceNN(s), "(> "+tlen+" 0)"))}
		}
		arr := vc.sliceArr(s)
		ln := vc.sliceLen(s)
		for i := 1; i < len(call.Args); i++ {
			v := vc.coerce(arg(i), et)
			arr = store(arr, ln, v.S)
			ln = "(+ " + ln + " 1)"
		}
		nn := "true"
		if len(call.Args) == 1 {
			nn = vc.sliceNN(s)
		}
		r := vc.mkSlice(st0, arr, ln, nn)
		return []Term{vc.nameIfBig(st, r)}
	case "delete":
		m := arg(0)
		mi := vc.mapInfo(m.T)
		k := vc.coerce(arg(1), mi.K)
		if preArgs == nil {
			vc.checkGuardExpr(st, call.Args[0], true)
		}
		vc.mapDelete(st, mi, m.S, k.S)
		return nil
	case "panic":
		vc.execPanic(st, call)
		return nil
	case "close":
		ch := arg(0)
		vc.oblige(st, "chan-close", "close("+exprString(call.Args[0])+")", vc.pos(call), and(not(eq(ch.S, "0")), not(vc.chanClosed(st, ch.S))), nil)
		hc := vc.heapGet(st, "Chc", "(Array Int Bool)", nil)
		st.heap["Chc"] = Term{S: store(hc.S, ch.S, "true"), Sort: "(Array Int Bool)"}
		return nil
	case "copy":
		vc.fail(call, "builtin copy")
	}
	vc.fail(call, "unsupported builtin %s", name)
	return nil
}

// execPanic: an explicit panic must be unreachable unless the contract allows it (`panics cond`).
func (vc *VC) execPanic(st *State, at ast.Node) {
	if vc.spec.Panics != nil {
		env := vc.specEnv(vc.entry, vc.entry)
		allowed := env.evalBool(vc.spec.Panics.Expr)
		vc.oblige(st, "panic-allowed", "panic reached only when: "+vc.spec.Panics.Text, vc.pos(at), allowed, nil)
	} else {
		vc.oblige(st, "safe-panic", "explicit panic is unreachable", vc.pos(at), "false", nil)
	}
	st.dead = true
}

// applyFuncValue calls a function value.
func (vc *VC) applyFuncValue(st *State, f Term, args []Term, call *ast.CallExpr) []Term {
	sig, _ := under(f.T).(*types.Signature)
	if fv, ok := vc.closures[f.S]; ok {
		if fv.Fn != nil {
			spec := vc.p.specFor(fv.Fn)
			if spec != nil {
				return vc.callByContract(st, spec, fv.Fn, fv.Fn.Type().(*types.Signature), fv.Recv, args, call)
			}
		}
		if fv.Lit != nil {
			outs := vc.inlineClosure(st, fv.Lit, args)
			if len(outs) != 1 {
				vc.fail(call, "closure call with %d exits", len(outs))
			}
			*st = *outs[0]
			var rets []Term
			for _, rv := range vc.closureResults(fv.Lit, vc.typeOf(fv.Lit).(*types.Signature)) {
				rets = append(rets, st.vars[rv])
			}
			return rets
		}
	}
	if sig == nil {
		vc.fail(call, "call of non-function value")
	}
	// context.CancelFunc and similar effect-only callbacks: no modelled effect
	if n, ok := f.T.(*types.Named); ok && n.Obj().Pkg() != nil && n.Obj().Pkg().Path() == "context" && n.Obj().Name() == "CancelFunc" {
		vc.ghostCall(st, "cancel", f)
		return nil
	}
	// opaque function values are pure, total functions of their arguments (assumption, listed)
	vc.note("assumed: function values called through variables are pure and total (uninterpreted application)")
	var sorts, as []string
	sorts = append(sorts, "Int")
	as = append(as, f.S)
	for i, a := range args {
		pt := vc.ts.apply(sig.Params().At(min(i, sig.Params().Len()-1)).Type())
		a = vc.coerce(a, pt)
		sorts = append(sorts, a.Sort)
		as = append(as, a.S)
	}
	var rets []Term
	for i := 0; i < sig.Results().Len(); i++ {
		rt := vc.ts.apply(sig.Results().At(i).Type())
		rs := vc.u.SortOf(rt)
		name := fmt.Sprintf("apply%d$%s$%s", i, sanitize(strings.Join(sorts, "_")), sanitize(rs))
		vc.u.declFun(name, "("+strings.Join(sorts, " ")+") "+rs)
		r := vc.mk("("+name+" "+strings.Join(as, " ")+")", rt)
		rets = append(rets, r)
	}
	return rets
}

// ghostCall records effect-only calls (cancel functions) in a ghost counter heap.
func (vc *VC) ghostCall(st *State, what string, f Term) {
	h := vc.heapGet(st, "G$called$"+what, "(Array Int Int)", nil)
	st.heap["G$called$"+what] = Term{S: store(h.S, f.S, "(+ "+sel(h.S, f.S)+" 1)"), Sort: "(Array Int Int)"}
}

// ---------------------------------------------------------------------------------------
// call by contract

func (vc *VC) callByContract(st *State, spec *FuncSpec, callee *types.Func, sig *types.Signature, recv *Term, args []Term, call ast.Node) []Term {
	names := vc.p.paramNames(spec, callee.Type().(*types.Signature))
	vars := map[string]Term{}
	idx := 0
	if sig.Recv() != nil || recv != nil {
		if recv == nil {
			vc.fail(call, "missing receiver for %s", callee.Name())
		}
		if len(names) > 0 {
			vars[names[0]] = *recv
		}
		idx = 1
	}
	for i := 0; i < sig.Params().Len(); i++ {
		if i >= len(args) {
			vc.fail(call, "too few arguments for %s", callee.Name())
		}
		vars[names[idx+i]] = vc.coerce(args[i], vc.ts.apply(sig.Params().At(i).Type()))
	}
	var cpkg *types.Package = callee.Pkg()
	pre := st.clone()
	env := &SpecEnv{vc: vc, st: st, old: pre, vars: vars, pkg: cpkg, allocOld: pre.alloc}
	for _, r := range spec.Requires {
		if !vc.wanted(r.Props) {
			continue
		}
		g := env.evalBool(r.Expr)
		vc.oblige(st, "pre@"+spec.Key, r.Text, vc.pos(call), g, r.Props)
	}
	// frame
	if !spec.Pure {
		if spec.HasWrites {
			targets := vc.evalWriteTargets(&SpecEnv{vc: vc, st: pre, old: pre, vars: vars, pkg: cpkg}, spec.Writes)
			var hs []string
			for h := range targets {
				hs = append(hs, h)
			}
			sort.Strings(hs)
			for _, h := range hs {
				sortName := vc.heapSort[h]
				old := vc.heapGet(pre, h, sortName, vc.heapElemT[h])
				nh := vc.freshSort(h, sortName)
				st.heap[h] = nh
				st.assume(frameFact(nh.S, old.S, targets[h], pre.alloc))
			}
			na := vc.freshSort("alloc", "Int")
			st.assume("(>= " + na.S + " " + pre.alloc + ")")
			st.alloc = na.S
			for _, h := range hs {
				if f := vc.heapWF(h, st.heap[h].S, st.alloc); f != "true" {
					st.assume(f)
				}
			}
		} else {
			vc.havocAll(st)
			if len(spec.Keeps) > 0 {
				keep := vc.evalWriteTargets(&SpecEnv{vc: vc, st: pre, old: pre, vars: vars, pkg: cpkg}, spec.Keeps)
				var hs []string
				for h := range keep {
					hs = append(hs, h)
				}
				sort.Strings(hs)
				for _, h := range hs {
					oldH := vc.heapGet(pre, h, vc.heapSort[h], vc.heapElemT[h])
					newH := vc.heapGet(st, h, vc.heapSort[h], vc.heapElemT[h])
					if oldH.S == newH.S {
						continue
					}
					st.assume(fmt.Sprintf("(forall ((r!f Int)) (! (=> %s (= (select %s r!f) (select %s r!f))) :pattern ((select %s r!f))))", or(keep[h]...), newH.S, oldH.S, newH.S))
				}
				vc.note("assumed: " + spec.Key + " leaves " + clauseTexts(spec.Keeps) + " unchanged (`keeps` clause of an otherwise frameless contract)")
			}
		}
	} else if spec.Opts["allocates"] != "" || true {
		// pure functions may still allocate (results can be fresh objects)
		na := vc.freshSort("alloc", "Int")
		st.assume("(>= " + na.S + " " + pre.alloc + ")")
		st.alloc = na.S
	}
	// elems(p): the callee overwrites the elements of slice parameter p in place: the caller's slice gets new,
	// unknown elements (same length); ensures clauses relate them to old(p)
	postVars := vars
	var oldVars map[string]Term
	for _, w := range spec.Writes {
		ce, ok := w.Expr.(*ast.CallExpr)
		if !ok {
			continue
		}
		if id, ok := ce.Fun.(*ast.Ident); !ok || id.Name != "elems" {
			continue
		}
		pname := ce.Args[0].(*ast.Ident).Name
		ov, ok := vars[pname]
		if !ok {
			vc.specFail(w.Expr, "elems() of unknown parameter %s", pname)
		}
		if oldVars == nil {
			oldVars = map[string]Term{}
			postVars = map[string]Term{}
			for k, v := range vars {
				postVars[k] = v
			}
		}
		oldVars[pname] = ov
		ns := vc.fresh("elems_"+pname, ov.T)
		st.assume(vc.u.WF(ns.S, ov.T, st.alloc))
		st.assume(eq(vc.sliceLen(ns), vc.sliceLen(ov)))
		st.assume(eq(vc.sliceNN(ns), vc.sliceNN(ov)))
		postVars[pname] = ns
		pi := -1
		for i := 0; i < sig.Params().Len(); i++ {
			if names[idx+i] == pname {
				pi = i
			}
		}
		if ce2, ok := call.(*ast.CallExpr); ok && pi >= 0 && pi < len(ce2.Args) {
			switch ast.Unparen(ce2.Args[pi]).(type) {
			case *ast.Ident, *ast.SelectorExpr, *ast.IndexExpr:
				vc.assign(st, ce2.Args[pi], ns)
			default:
				vc.fail(call, "elems(): argument %s is not an assignable place", exprString(ce2.Args[pi]))
			}
		}
	}
	// results
	var rets []Term
	pre0 := &SpecEnv{vc: vc, st: pre, old: pre, vars: vars, pkg: cpkg, allocOld: pre.alloc}
	post := &SpecEnv{vc: vc, st: st, old: pre, vars: postVars, oldVars: oldVars, pkg: cpkg, allocOld: pre.alloc}
	rv := map[string]Term{}
	for i := 0; i < sig.Results().Len(); i++ {
		rt := vc.ts.apply(sig.Results().At(i).Type())
		r := vc.fresh("ret_"+callee.Name(), rt)
		st.assume(vc.u.WF(r.S, rt, st.alloc))
		rets = append(rets, r)
		if n := callee.Type().(*types.Signature).Results().At(i).Name(); n != "" && n != "_" {
			rv[n] = r
		}
		rv[fmt.Sprintf("result%d", i)] = r
		if sig.Results().Len() == 1 {
			rv["result"] = r
		}
	}
	post = post.with(rv)
	for _, e := range spec.Ensures {
		if !vc.wanted(e.Props) {
			continue
		}
		st.assume(post.evalBool(e.Expr))
	}
	for _, e := range spec.Promises {
		if !vc.wanted(e.Props) {
			continue
		}
		st.assume(post.evalBool(e.Expr))
		vc.note("trusted (not proved) clause of " + spec.Key + ": " + e.Text)
	}
	if spec.Panics != nil {
		// the callee documents when it panics; execution continues only if it did not
		st.assume(not(pre0.evalBool(spec.Panics.Expr)))
	}
	if spec.Opts["noreturn"] == "true" {
		st.dead = true
	}
	vc.usedSpecs[spec.Pkg+"::"+spec.Key] = true
	if vc.quiet == 0 && vc.pure == 0 && vc.dry == 0 && !vc.callCovered[spec.Key] && (len(spec.Ensures) > 0 || len(spec.Promises) > 0) && spec.Opts["noreturn"] != "true" {
		// vacuity: the assumed contract of the callee must not contradict what is known at the call (a contradictory
		// contract would make everything after the call provable). Checked once per callee and function: the facts
		// after the call must be satisfiable unless the facts before it already were not (dead path).
		vc.callCovered[spec.Key] = true
		if o := vc.oblige(st, "cover-call", "the contract of "+spec.Key+" is consistent with the state at its call in "+vc.fi.Key, vc.pos(call), "false", nil); o != nil {
			o.Cover = true
			o.PreFacts = append([]string(nil), pre.facts...)
		}
	}
	if vc.quiet == 0 && vc.pure == 0 {
		cr := map[string]Term{}
		for i, r := range rets {
			cr[fmt.Sprintf("callresult%d", i)] = r
			if len(rets) == 1 {
				cr["callresult"] = r
			}
		}
		vc.anchors([]*State{st}, "aftercall_"+callee.Name(), nil, cr)
	}
	return rets
}

// havocAll forgets every mutable heap (callee without a frame).
func (vc *VC) havocAll(st *State) {
	// (the cancel-call counter exists from the start, so that "it only grows" can be stated across the havoc)
	vc.heapGet(st, "G$called$cancel", "(Array Int Int)", nil)
	st.havocTok = vc.u.Fresh("hv")
	known := map[string]bool{}
	for h := range vc.heapSort {
		known[h] = true
	}
	vc.havocKnown[st.havocTok] = known
	na := vc.freshSort("alloc", "Int")
	st.assume("(>= " + na.S + " " + st.alloc + ")")
	st.alloc = na.S
	var hs []string
	for h := range vc.heapSort {
		hs = append(hs, h)
	}
	sort.Strings(hs)
	for _, h := range hs {
		if vc.immutableHeap(h) || h == "Chk" {
			// (the capacity of a channel never changes)
			continue
		}
		oldH, hadOld := st.heap[h]
		if strings.HasPrefix(h, "G$called$") {
			oldH, hadOld = vc.heapGet(st, h, vc.heapSort[h], nil), true
		}
		nh := vc.freshSort(h, vc.heapSort[h])
		st.heap[h] = nh
		if f := vc.heapWF(h, nh.S, st.alloc); f != "true" {
			st.assume(f)
		}
		if strings.HasPrefix(h, "G$called$") && hadOld {
			// call counters only grow, whatever an unknown callee does
			st.assume("(forall ((r!h Int)) (! (>= (select " + nh.S + " r!h) (select " + oldH.S + " r!h)) :pattern ((select " + nh.S + " r!h))))")
		}
	}
}

func (vc *VC) immutableHeap(h string) bool {
	if !strings.HasPrefix(h, "F$") {
		return false
	}
	parts := strings.Split(h, "$")
	if len(parts) < 3 {
		return false
	}
	// parts[1] is the sanitized struct sort name without S_, e.g. mocrelay.Event
	name := parts[1]
	if i := strings.LastIndex(name, "."); i >= 0 {
		name = name[i+1:]
	}
	return vc.p.con.Immutable[name]
}

// evalWriteTargets maps write clauses to (heap name -> membership conditions over the bound variable r!f).
func (vc *VC) evalWriteTargets(env *SpecEnv, writes []*Clause) map[string][]string {
	out := map[string][]string{}
	for _, w := range writes {
		vc.evalWriteTarget(env, w.Expr, w.Text, func(h, ref string) { out[h] = append(out[h], eq("r!f", ref)) },
			func(h, cond string) { out[h] = append(out[h], cond) })
	}
	return out
}

func (vc *VC) evalWriteTarget(env *SpecEnv, e ast.Expr, text string, add func(h, ref string), addCond func(h, cond string)) {
	{
		w := &Clause{Text: text}
		// each(i, lo, hi, target): the targets for every i in [lo, hi)
		if ce, ok := e.(*ast.CallExpr); ok {
			if id, ok := ce.Fun.(*ast.Ident); ok && id.Name == "each" && len(ce.Args) == 4 {
				name := ce.Args[0].(*ast.Ident).Name
				lo, hi := env.eval(ce.Args[1]), env.eval(ce.Args[2])
				vc.bvN++
				bv := fmt.Sprintf("%s!w%d", sanitize(name), vc.bvN)
				inner := env.with(map[string]Term{name: intTerm(bv)})
				vc.evalWriteTarget(inner, ce.Args[3], text, func(h, ref string) {
					addCond(h, fmt.Sprintf("(exists ((%s Int)) (and (<= %s %s) (< %s %s) (= r!f %s)))", bv, lo.S, bv, bv, hi.S, ref))
				}, func(h, cond string) {
					addCond(h, fmt.Sprintf("(exists ((%s Int)) (and (<= %s %s) (< %s %s) %s))", bv, lo.S, bv, bv, hi.S, cond))
				})
				return
			}
			if id, ok := ce.Fun.(*ast.Ident); ok && id.Name == "eachkey" && len(ce.Args) == 3 {
				// eachkey(k, m, target): for every key k of map m
				name := ce.Args[0].(*ast.Ident).Name
				m := env.eval(ce.Args[1])
				mi := vc.mapInfo(m.T)
				vc.bvN++
				bv := fmt.Sprintf("%s!w%d", sanitize(name), vc.bvN)
				inner := env.with(map[string]Term{name: vc.mk(bv, mi.K)})
				dom := vc.mapDom(env.st, mi, m.S)
				vc.evalWriteTarget(inner, ce.Args[2], text, func(h, ref string) {
					addCond(h, fmt.Sprintf("(exists ((%s %s)) (and (select %s %s) (= r!f %s)))", bv, mi.ks, dom, bv, ref))
				}, func(h, cond string) {
					addCond(h, fmt.Sprintf("(exists ((%s %s)) (and (select %s %s) %s))", bv, mi.ks, dom, bv, cond))
				})
				return
			}
		}
		// fields(x): every field of *x
		if ce, ok := e.(*ast.CallExpr); ok {
			if id, ok := ce.Fun.(*ast.Ident); ok && id.Name == "fields" {
				x := env.eval(ce.Args[0])
				pt, ok := under(x.T).(*types.Pointer)
				if !ok {
					vc.specFail(e, "fields() of non-pointer")
				}
				et := vc.ts.apply(pt.Elem())
				stt := under(et).(*types.Struct)
				for i := 0; i < stt.NumFields(); i++ {
					name, sortName := vc.fieldHeap(et, stt.Field(i))
					vc.heapGet(env.st, name, sortName, vc.ts.apply(stt.Field(i).Type()))
					add(name, x.S)
				}
				return
			}
			if id, ok := ce.Fun.(*ast.Ident); ok && id.Name == "elems" {
				// elems(p): the elements of slice parameter p (slices are values here; handled at the call site)
				return
			}
			if id, ok := ce.Fun.(*ast.Ident); ok && id.Name == "contents" {
				// contents(e): the map / channel object e refers to
				x := env.eval(ce.Args[0])
				vc.addObjectTargets(env, x, e, add)
				return
			}
			if id, ok := ce.Fun.(*ast.Ident); ok && id.Name == "when" && len(ce.Args) == 2 {
				// when(cond, target): the target only if cond holds (evaluated in the pre-state)
				c := env.evalBool(ce.Args[0])
				vc.evalWriteTarget(env, ce.Args[1], text, func(h, ref string) { addCond(h, and(c, eq("r!f", ref))) },
					func(h, cond string) { addCond(h, and(c, cond)) })
				return
			}
			if id, ok := ce.Fun.(*ast.Ident); ok && id.Name == "anychan" {
				// anychan(T): the buffer of any channel with element type T (and the drop counters)
				t, _ := vc.resolveType(ce.Args[0], env.pkg)
				ci := vc.chanInfo(types.NewChan(types.SendRecv, t))
				vc.heapGet(env.st, ci.bn, ci.bsort, types.NewSlice(ci.E))
				addCond(ci.bn, "true")
				// (the closed flags and read heads live in heaps shared by all channel types)
				vc.chanClosed(env.st, "0")
				vc.chanHead(env.st, "0")
				addCond("Chc", "true")
				addCond("Chh", "true")
				if _, ok := vc.p.con.Ghosts["dropped"]; ok {
					hn, hs, _, _ := vc.ghostHeap("dropped", env.pkg)
					vc.heapGet(env.st, hn, hs, nil)
					addCond(hn, "true")
				}
				return
			}
			if id, ok := ce.Fun.(*ast.Ident); ok && id.Name == "anymap" && len(ce.Args) == 2 {
				// anymap(K, V): the contents of any map with these Go key and value types
				kt, _ := vc.resolveType(ce.Args[0], env.pkg)
				vt, _ := vc.resolveType(ce.Args[1], env.pkg)
				mi := vc.mapInfo(types.NewMap(kt, vt))
				vc.mapDom(env.st, mi, "0")
				vc.mapVal(env.st, mi, "0")
				vc.mapCard(env.st, mi, "0")
				addCond(mi.dn, "true")
				addCond(mi.vn, "true")
				addCond(mi.cn, "true")
				return
			}
			if id, ok := ce.Fun.(*ast.Ident); ok && id.Name == "anylock" {
				// anylock(x.mu): the lock state of that mutex field in every object of x's type
				hn, _ := env.lockTarget(ce.Args[0])
				addCond(hn, "true")
				return
			}
			if id, ok := ce.Fun.(*ast.Ident); ok && id.Name == "token" {
				ch := env.eval(ce.Args[0])
				vc.heapGet(env.st, "G$tokheld", "(Array Int Int)", nil)
				add("G$tokheld", ch.S)
				return
			}
			if id, ok := ce.Fun.(*ast.Ident); ok && id.Name == "lock" {
				hn, ref := env.lockTarget(ce.Args[0])
				add(hn, ref)
				return
			}
			if id, ok := ce.Fun.(*ast.Ident); ok && id.Name == "ghost" {
				// ghost(name, ref)
				gname := ce.Args[0].(*ast.Ident).Name
				hn, hs, gt, gg := vc.ghostHeap(gname, env.pkg)
				var shapeT types.Type
				if gg == nil && gt != nil {
					if _, ok := under(gt).(*types.Slice); ok {
						shapeT = gt
					}
				}
				vc.heapGet(env.st, hn, hs, shapeT)
				if len(ce.Args) == 1 {
					// ghost(name): the ghost state of every object
					addCond(hn, "true")
					return
				}
				x := env.eval(ce.Args[1])
				if x.Sort == "Iface" {
					add(hn, "(ipay "+x.S+")")
				} else {
					add(hn, x.S)
				}
				return
			}
		}
		if se, ok := e.(*ast.SelectorExpr); ok {
			var base Term
			if id, ok := se.X.(*ast.Ident); ok && env.lookupLocal(id.Name) == nil {
				if o := vc.lookupProgramVar(env.st, id.Name); o != nil {
					if cell, ok := env.st.cells[o]; ok {
						// field of an address-taken struct local: the field of its cell
						base = cell
					}
				}
			}
			if base.S == "" {
				base = env.eval(se.X)
			}
			if pt, ok := under(base.T).(*types.Pointer); ok {
				et := vc.ts.apply(pt.Elem())
				stt := under(et).(*types.Struct)
				found := false
				for i := 0; i < stt.NumFields(); i++ {
					if stt.Field(i).Name() == se.Sel.Name {
						name, sortName := vc.fieldHeap(et, stt.Field(i))
						vc.heapGet(env.st, name, sortName, vc.ts.apply(stt.Field(i).Type()))
						add(name, base.S)
						found = true
					}
				}
				if found {
					return
				}
			}
		}
		if st, ok := e.(*ast.StarExpr); ok {
			p := env.eval(st.X)
			pt := under(p.T).(*types.Pointer)
			et := vc.ts.apply(pt.Elem())
			if stt, ok := under(et).(*types.Struct); ok {
				for i := 0; i < stt.NumFields(); i++ {
					name, sortName := vc.fieldHeap(et, stt.Field(i))
					vc.heapGet(env.st, name, sortName, vc.ts.apply(stt.Field(i).Type()))
					add(name, p.S)
				}
			} else {
				name, sortName := vc.cellHeap(et)
				vc.heapGet(env.st, name, sortName, et)
				add(name, p.S)
			}
			return
		}
		_ = w
		x := env.eval(e)
		vc.addObjectTargets(env, x, e, add)
	}
}

func (vc *VC) addObjectTargets(env *SpecEnv, x Term, e ast.Expr, add func(h, ref string)) {
	switch under(x.T).(type) {
	case *types.Map:
		mi := vc.mapInfo(x.T)
		vc.mapDom(env.st, mi, x.S)
		vc.mapVal(env.st, mi, x.S)
		vc.mapCard(env.st, mi, x.S)
		add(mi.dn, x.S)
		add(mi.vn, x.S)
		add(mi.cn, x.S)
	case *types.Chan:
		ci := vc.chanInfo(x.T)
		vc.chanBuf(env.st, ci, x.S)
		vc.chanClosed(env.st, x.S)
		vc.chanHead(env.st, x.S)
		add(ci.bn, x.S)
		add("Chc", x.S)
		add("Chh", x.S)
	default:
		vc.specFail(e, "unsupported write target %s", exprString(e))
	}
}

// ---------------------------------------------------------------------------------------
// structural externs modelled in the engine (everything else: contracts in /verif/specs)

func (vc *VC) builtinExtern(st *State, callee *types.Func, recv *Term, args []Term, call *ast.CallExpr) ([]Term, bool) {
	full := callee.FullName()
	pkg := ""
	if callee.Pkg() != nil {
		pkg = callee.Pkg().Path()
	}
	errT := types.Universe.Lookup("error").Type()
	nonNilErr := func() Term {
		e := vc.fresh("err", errT)
		st.assume(not(eq("(itag "+e.S+")", "0")))
		return e
	}
	switch {
	case full == "fmt.Errorf", full == "errors.New":
		// the text of error values is dropped: an opaque non-nil error
		return []Term{nonNilErr()}, true
	case full == "errors.Join":
		// nil iff all arguments are nil
		e := vc.fresh("err", errT)
		var nils []string
		sl := args[0]
		if len(call.Args) > 0 && !call.Ellipsis.IsValid() {
			for i := range call.Args {
				nils = append(nils, eq("(itag "+sel(vc.sliceArr(sl), fmt.Sprint(i))+")", "0"))
			}
			st.assume(eq(eq("(itag "+e.S+")", "0"), and(nils...)))
		}
		st.assume(vc.u.wfIface(e.S, st.alloc))
		return []Term{e}, true
	case full == "errors.Is":
		vc.u.declFun("abs.errorsIs", "(Iface Iface) Bool")
		return []Term{boolTerm("(abs.errorsIs " + args[0].S + " " + args[1].S + ")")}, true
	case full == "fmt.Sprintf":
		// formatted text: uninterpreted function of format and arguments
		r := vc.fresh("sprintf", types.Typ[types.String])
		key := "abs.sprintf" + fmt.Sprint(len(call.Args)-1)
		var sorts, as []string
		sorts = append(sorts, "Str")
		as = append(as, args[0].S)
		if len(call.Args) > 1 {
			vs := args[1]
			for i := 0; i < len(call.Args)-1; i++ {
				sorts = append(sorts, "Iface")
				as = append(as, sel(vc.sliceArr(vs), fmt.Sprint(i)))
			}
		}
		vc.u.declFun(key, "("+strings.Join(sorts, " ")+") Str")
		st.assume(eq(r.S, "("+key+" "+strings.Join(as, " ")+")"))
		return []Term{r}, true
	case pkg == "log/slog", strings.HasPrefix(full, "(*log/slog.Logger)."):
		return nil, true
	case full == "strings.Clone":
		return []Term{args[0]}, true
	case full == "encoding/json.Unmarshal" && len(call.Args) == 2:
		// json.Unmarshal(data, &x): x becomes a function of the bytes (what the library decodes), err == nil iff
		// the library accepts them for that target type. The library is assumed deterministic and panic-free.
		if ue, ok := ast.Unparen(call.Args[1]).(*ast.UnaryExpr); ok && ue.Op == token.AND {
			target := ue.X
			tt := vc.typeOf(target)
			ts := vc.u.SortOf(tt)
			data := args[0]
			fn := "abs.jsonDecoded$" + sanitize(typeKey(tt))
			okf := "abs.jsonOK$" + sanitize(typeKey(tt))
			vc.u.declFun(fn, "("+data.Sort+") "+ts)
			vc.u.declFun(okf, "("+data.Sort+") Bool")
			e := vc.fresh("err", errT)
			st.assume(vc.u.wfIface(e.S, st.alloc))
			st.assume(eq(eq("(itag "+e.S+")", "0"), "("+okf+" "+data.S+")"))
			nv := vc.fresh("decoded", tt)
			st.assume(vc.u.WF(nv.S, tt, st.alloc))
			st.assume(imp("("+okf+" "+data.S+")", eq(nv.S, "("+fn+" "+data.S+")")))
			old := vc.evalExprQuiet(st.clone(), target)
			// on error the target keeps what it had (partial writes are not modelled)
			fin := nv
			fin.S = ite("("+okf+" "+data.S+")", nv.S, old.S)
			vc.assign(st, target, fin)
			vc.note("assumed: encoding/json.Unmarshal is a deterministic, panic-free function of its input bytes (abs.jsonDecoded / abs.jsonOK)")
			return []Term{e}, true
		}
	case full == "(*encoding/json.Decoder).Decode" && len(call.Args) == 1:
		// dec.Decode(&x): x becomes some well-typed value (what the library decodes from the stream), or keeps its
		// value on error. The library is assumed panic-free.
		if ue, ok := ast.Unparen(call.Args[0]).(*ast.UnaryExpr); ok && ue.Op == token.AND {
			target := ue.X
			tt := vc.typeOf(target)
			e := vc.fresh("err", errT)
			st.assume(vc.u.wfIface(e.S, st.alloc))
			nv := vc.fresh("decoded", tt)
			na := vc.freshSort("alloc", "Int")
			st.assume("(>= " + na.S + " " + st.alloc + ")")
			st.alloc = na.S
			st.assume(vc.u.WF(nv.S, tt, st.alloc))
			old := vc.evalExprQuiet(st.clone(), target)
			fin := nv
			fin.S = ite(eq("(itag "+e.S+")", "0"), nv.S, old.S)
			vc.assign(st, target, fin)
			vc.note("assumed: (*json.Decoder).Decode is panic-free and stores a well-typed value (content unconstrained)")
			return []Term{e}, true
		}
	case full == "context.TODO", full == "context.Background":
		r := vc.fresh("ctx", callee.Type().(*types.Signature).Results().At(0).Type())
		return []Term{r}, true
	}
	// repo logging helpers: no effect on program state
	if vc.isLoggingHelper(callee) {
		return nil, true
	}
	if callee.Name() == "panicf" && callee.Pkg() != nil && vc.p.pkgs[callee.Pkg().Path()] != nil {
		vc.execPanic(st, call)
		return nil, true
	}
	return nil, false
}

func (vc *VC) isLoggingHelper(fn *types.Func) bool {
	switch fn.Name() {
	case "logInfo", "logWarn", "infoLog", "warnLog", "errorLog":
		if fn.Pkg() != nil {
			if _, ok := vc.p.pkgs[fn.Pkg().Path()]; ok {
				return true
			}
		}
	}
	return false
}

// ---------------------------------------------------------------------------------------
// select: sequential channel model.
//   * a channel is a history sequence chanbuf(ch) plus a read position chanhead(ch); receiving takes
//     element chanhead and advances it; the not-yet-received part of an input channel is the (arbitrary,
//     universally quantified) future input; sending appends to the sequence;
//   * a receive case is enabled when an element is available (value, ok=true) or the channel is closed and
//     drained (zero, ok=false); <-ctx.Done(), timers and send cases are enabled nondeterministically;
//     default is always allowed (over-approximation);
//   * blocking, fairness and other goroutines are not modelled (partial correctness of the sequential loop).

func (vc *VC) chanHead(st *State, ref string) string {
	h := vc.heapGet(st, "Chh", "(Array Int Int)", nil)
	return sel(h.S, ref)
}

type recvOutcome struct {
	st *State
	v  Term
	ok string
}

func (vc *VC) isOpaqueRecvSource(e ast.Expr) bool {
	// <-ctx.Done(), <-time.After(d), <-ticker.C
	switch x := ast.Unparen(e).(type) {
	case *ast.CallExpr:
		if se, ok := x.Fun.(*ast.SelectorExpr); ok {
			if se.Sel.Name == "Done" || se.Sel.Name == "After" {
				return true
			}
		}
	}
	t := vc.typeOf(e)
	if ct, ok := under(t).(*types.Chan); ok {
		if n, ok := ct.Elem().(*types.Named); ok && n.Obj().Pkg() != nil && n.Obj().Pkg().Path() == "time" && n.Obj().Name() == "Time" {
			return true
		}
		if st, ok := under(ct.Elem()).(*types.Struct); ok && st.NumFields() == 0 {
			return true
		}
	}
	return false
}

func (vc *VC) chanRecv(st *State, chE ast.Expr) []recvOutcome {
	if vc.isOpaqueRecvSource(chE) {
		t := vc.typeOf(chE)
		et := vc.ts.apply(under(t).(*types.Chan).Elem())
		s := st.clone()
		// operands are evaluated for their safety obligations only when they are plain expressions
		if ce, isCall := ast.Unparen(chE).(*ast.CallExpr); !isCall {
			vc.evalExpr(s, chE)
		} else if se, ok := ce.Fun.(*ast.SelectorExpr); ok && se.Sel.Name == "Done" {
			// the Done case fires only on a finished context
			cx := vc.evalExprQuiet(s, se.X)
			vc.u.declFun("abs.ctxdone", "(Iface) Bool")
			s.assume("(abs.ctxdone " + cx.S + ")")
		}
		return []recvOutcome{{st: s, v: vc.u.Zero(et), ok: "true"}}
	}
	s1 := st.clone()
	ch := vc.evalExpr(s1, chE)
	ci := vc.chanInfo(ch.T)
	buf := vc.chanBuf(s1, ci, ch.S)
	head := vc.chanHead(s1, ch.S)
	ln := vc.sliceLen(buf)
	// outcome 1: an element is available
	s1.assume(and(not(eq(ch.S, "0")), "(<= 0 "+head+")", "(< "+head+" "+ln+")"))
	v := vc.mk(sel(vc.sliceArr(buf), head), ci.E)
	s1.assume(vc.u.WF(v.S, ci.E, s1.alloc))
	hh := vc.heapGet(s1, "Chh", "(Array Int Int)", nil)
	s1.heap["Chh"] = Term{S: store(hh.S, ch.S, "(+ "+head+" 1)"), Sort: "(Array Int Int)"}
	// outcome 2: closed and drained
	s2 := st.clone()
	ch2 := vc.evalExprQuiet(s2, chE)
	buf2 := vc.chanBuf(s2, ci, ch2.S)
	s2.assume(and(not(eq(ch2.S, "0")), "(>= "+vc.chanHead(s2, ch2.S)+" "+vc.sliceLen(buf2)+")", vc.chanClosed(s2, ch2.S)))
	return []recvOutcome{{st: s1, v: v, ok: "true"}, {st: s2, v: vc.u.Zero(ci.E), ok: "false"}}
}

// chanLogSend: a send that was accepted (by a receiver or a buffer slot) appends to the history.
func (vc *VC) chanLogSend(st *State, ch Term, v Term) {
	ci := vc.chanInfo(ch.T)
	buf := vc.chanBuf(st, ci, ch.S)
	ln := vc.sliceLen(buf)
	nb := vc.mkSlice(buf.T, store(vc.sliceArr(buf), ln, vc.coerce(v, ci.E).S), "(+ "+ln+" 1)", "true")
	h := vc.heapGet(st, ci.bn, ci.bsort, buf.T)
	st.heap[ci.bn] = Term{S: store(h.S, ch.S, nb.S), Sort: ci.bsort}
}

func (vc *VC) execSelectModel(st *State, x *ast.SelectStmt) []*State {
	// discipline (C13): a select that can block must be cancellable
	hasDefault, hasDone := false, false
	for _, c := range x.Body.List {
		cc := c.(*ast.CommClause)
		if cc.Comm == nil {
			hasDefault = true
			continue
		}
		var rx ast.Expr
		switch comm := cc.Comm.(type) {
		case *ast.ExprStmt:
			rx = comm.X
		case *ast.AssignStmt:
			rx = comm.Rhs[0]
		}
		if ue, ok := ast.Unparen(rx).(*ast.UnaryExpr); rx != nil && ok && ue.Op == token.ARROW {
			if ce, ok := ast.Unparen(ue.X).(*ast.CallExpr); ok {
				if se, ok := ce.Fun.(*ast.SelectorExpr); ok && se.Sel.Name == "Done" {
					hasDone = true
				}
			}
		}
	}
	if !hasDefault && !hasDone {
		vc.oblige(st, "cancellable", "a select that may block has a <-ctx.Done() case (or a default)", vc.pos(x), "false", nil)
	} else {
		vc.oblige(st, "cancellable", "a select that may block has a <-ctx.Done() case (or a default)", vc.pos(x), "true", nil)
	}
	if vc.spec.Opts["nonblocking"] == "true" && vc.quiet == 0 {
		// `opt nonblocking=true`: this function never waits for another goroutine: its selects need a default case
		g := "false"
		if hasDefault {
			g = "true"
		}
		vc.oblige(st, "nonblocking", "a select in a function declared non-blocking has a default case", vc.pos(x), g, nil)
	}
	tg := &target{}
	vc.targets = append(vc.targets, tg)
	var outs []*State
	vc.note("assumed: sequential channel model for select (input channels hold an arbitrary future input sequence; blocking, fairness and other goroutines are not modelled)")
	for _, c := range x.Body.List {
		cc := c.(*ast.CommClause)
		switch comm := cc.Comm.(type) {
		case nil:
			outs = append(outs, vc.execBlock([]*State{st.clone()}, cc.Body)...)
		case *ast.SendStmt:
			s := st.clone()
			ch := vc.evalExpr(s, comm.Chan)
			v := vc.evalExpr(s, comm.Value)
			s.assume(not(eq(ch.S, "0")))
			vc.chanLogSend(s, ch, v)
			outs = append(outs, vc.execBlock([]*State{s}, cc.Body)...)
		case *ast.ExprStmt:
			ue, ok := ast.Unparen(comm.X).(*ast.UnaryExpr)
			if !ok || ue.Op != token.ARROW {
				vc.fail(comm, "unsupported select case")
			}
			for _, o := range vc.chanRecv(st, ue.X) {
				outs = append(outs, vc.execBlock([]*State{o.st}, cc.Body)...)
			}
		case *ast.AssignStmt:
			ue, ok := ast.Unparen(comm.Rhs[0]).(*ast.UnaryExpr)
			if !ok || ue.Op != token.ARROW {
				vc.fail(comm, "unsupported select case")
			}
			for _, o := range vc.chanRecv(st, ue.X) {
				vc.assign(o.st, comm.Lhs[0], o.v)
				if len(comm.Lhs) == 2 {
					vc.assign(o.st, comm.Lhs[1], boolTerm(o.ok))
				}
				outs = append(outs, vc.execBlock([]*State{o.st}, cc.Body)...)
			}
		default:
			vc.fail(cc, "unsupported select communication")
		}
	}
	vc.targets = vc.targets[:len(vc.targets)-1]
	outs = append(outs, tg.breaks...)
	return outs
}

// lockOp models mu.Lock/Unlock/RLock/RUnlock where mu is a field `owner.mu` of a pointer-held struct.
// Ghost state G$lock$<Struct>$<field>[owner]: 0 free, 1 read-held, 2 write-held (by this activation).
func (vc *VC) lockOp(st *State, callee *types.Func, recvExpr ast.Expr, call *ast.CallExpr) bool {
	se, ok := ast.Unparen(recvExpr).(*ast.SelectorExpr)
	if !ok {
		return false
	}
	sel, ok := vc.info.Selections[se]
	if !ok || sel.Kind() != types.FieldVal {
		return false
	}
	rt := vc.typeOf(recvExpr)
	n, ok := rt.(*types.Named)
	if !ok || (n.Obj().Name() != "Mutex" && n.Obj().Name() != "RWMutex") {
		return false
	}
	bt := vc.typeOf(se.X)
	pt, ok := under(bt).(*types.Pointer)
	if !ok {
		return false
	}
	owner := vc.evalExpr(st, se.X)
	vc.oblige(st, "safe-nil", exprString(recvExpr), vc.pos(call), not(eq(owner.S, "0")), nil)
	hname := vc.lockHeapName(vc.ts.apply(pt.Elem()), se.Sel.Name)
	h := vc.heapGet(st, hname, "(Array Int Int)", nil)
	cur := sel2(h.S, owner.S)
	set := func(v string) { st.heap[hname] = Term{S: store(h.S, owner.S, v), Sort: "(Array Int Int)"} }
	var mons []*GlobalFact
	if on, ok := vc.ts.apply(pt.Elem()).(*types.Named); ok {
		mons = vc.p.con.Monitors[on.Obj().Name()+"."+se.Sel.Name]
	}
	monInv := func(mon *GlobalFact) string {
		env := vc.specEnv(st, vc.entry)
		env.vars["self"] = owner
		return env.evalBool(mon.Expr)
	}
	if vc.dry == 0 && (callee.Name() == "Unlock" || callee.Name() == "RUnlock") {
		// monitor invariants: re-established before the lock is released
		for _, mon := range mons {
			if !vc.wanted(mon.Props) {
				continue
			}
			vc.oblige(st, "monitor-invariant", "invariant of "+mon.Name+" holds when the lock is released: "+mon.Text, vc.pos(call), monInv(mon), mon.Props)
		}
	}
	defer func() {
		if vc.dry == 0 && (callee.Name() == "Lock" || callee.Name() == "RLock") {
			// ... and may therefore be assumed when it is acquired (all writers of guarded state hold the lock)
			for _, mon := range mons {
				if !vc.wanted(mon.Props) {
					continue
				}
				st.assume(monInv(mon))
				vc.note("monitor invariant of " + mon.Name + " assumed at acquire (proved at every release and by the constructor; guarded state is only written under the lock)")
			}
		}
	}()
	switch callee.Name() {
	case "Lock":
		vc.oblige(st, "lock-order", "Lock() on "+exprString(recvExpr)+" while not already held by this activation", vc.pos(call), eq(cur, "0"), nil)
		set("2")
	case "RLock":
		vc.oblige(st, "lock-order", "RLock() on "+exprString(recvExpr)+" while not already held by this activation", vc.pos(call), eq(cur, "0"), nil)
		set("1")
	case "Unlock":
		vc.oblige(st, "lock-order", "Unlock() of "+exprString(recvExpr)+" requires the write lock", vc.pos(call), eq(cur, "2"), nil)
		set("0")
	case "RUnlock":
		vc.oblige(st, "lock-order", "RUnlock() of "+exprString(recvExpr)+" requires the read lock", vc.pos(call), eq(cur, "1"), nil)
		set("0")
	default:
		return false
	}
	vc.note("assumed: sync.Mutex/RWMutex provide mutual exclusion (lock state tracked as ghost; interleavings not explored)")
	return true
}

func sel2(a, i string) string { return sel(a, i) }

func (vc *VC) lockHeapName(structT types.Type, field string) string {
	return "G$lock$" + strings.TrimPrefix(vc.u.SortOf(structT), "S_") + "$" + field
}

// lockTarget resolves a spec expression `x.mu` to (heap, owner ref).
func (e *SpecEnv) lockTarget(x ast.Expr) (string, string) {
	vc := e.vc
	se, ok := x.(*ast.SelectorExpr)
	if !ok {
		vc.specFail(x, "held()/lock() expects owner.mutexField")
	}
	owner := e.eval(se.X)
	pt, ok := under(owner.T).(*types.Pointer)
	if !ok {
		vc.specFail(x, "held()/lock(): owner must be a pointer")
	}
	hn := vc.lockHeapName(vc.ts.apply(pt.Elem()), se.Sel.Name)
	vc.heapGet(e.st, hn, "(Array Int Int)", nil)
	return hn, owner.S
}

// looksPure: an external function whose receiver/parameters are plain values cannot touch the modelled heap.
func (vc *VC) looksPure(callee *types.Func, sig *types.Signature, recv *Term) bool {
	if callee.Pkg() == nil {
		return false
	}
	if _, isRepo := vc.p.pkgs[callee.Pkg().Path()]; isRepo {
		return false
	}
	var plain func(t types.Type, d int) bool
	plain = func(t types.Type, d int) bool {
		if d > 3 {
			return false
		}
		switch tt := under(t).(type) {
		case *types.Basic:
			return tt.Kind() != types.UnsafePointer
		case *types.Slice:
			return plain(tt.Elem(), d+1)
		case *types.Array:
			return plain(tt.Elem(), d+1)
		case *types.Struct:
			for i := 0; i < tt.NumFields(); i++ {
				if !plain(tt.Field(i).Type(), d+1) {
					return false
				}
			}
			return true
		}
		return false
	}
	if recv != nil && !plain(recv.T, 0) {
		return false
	}
	for i := 0; i < sig.Params().Len(); i++ {
		if !plain(vc.ts.apply(sig.Params().At(i).Type()), 0) {
			return false
		}
	}
	return true
}

func clauseTexts(cs []*Clause) string {
	var ts []string
	for _, c := range cs {
		ts = append(ts, c.Text)
	}
	return strings.Join(ts, ", ")
}
