package main

import (
	"regexp"
	"fmt"
	"go/ast"
	"go/token"
	"go/types"
	"sort"
	"strings"
)

type FuncResult struct {
	Key     string
	Spec    *FuncSpec
	Obls    []*Obligation
	Notes   []string
	Err     error
	Trusted bool
	Used    []string // contracts relied upon
}

// pureEval evaluates a closure literal's single return expression functionally.
func (vc *VC) pureEvalLit(st *State, lit *ast.FuncLit, args []Term) Term {
	if len(lit.Body.List) != 1 {
		vc.fail(lit, "closure used as predicate must consist of a single return statement")
	}
	ret, ok := lit.Body.List[0].(*ast.ReturnStmt)
	if !ok || len(ret.Results) != 1 {
		vc.fail(lit, "closure used as predicate must consist of a single return statement")
	}
	sc := st.clone()
	i := 0
	for _, f := range lit.Type.Params.List {
		for _, n := range f.Names {
			if obj := vc.info.Defs[n]; obj != nil && i < len(args) {
				sc.vars[obj] = vc.coerce(args[i], vc.ts.apply(obj.Type()))
			}
			i++
		}
	}
	vc.pure++
	nf := len(sc.facts)
	t := vc.evalExprQuiet(sc, ret.Results[0])
	vc.pure--
	for _, f := range sc.facts[nf:] {
		// facts introduced while evaluating under a binder must not mention fresh symbols of the binder;
		// only definitional facts about closed terms are produced by the engine here, keep them.
		st.assume(f)
	}
	return t
}

// VerifyFunc verifies a function against its contract. If the proof annotations (loop invariants, anchors) no
// longer apply to the code (e.g. they name a local that was renamed or removed), the function is re-verified with
// those annotations dropped: the function-level contract still stands, but a failed obligation is then only
// reported as a violation when a counterexample replays on the real code (otherwise: undecided).
func (p *Prog) VerifyFunc(fi *FuncInfo, spec *FuncSpec) (res *FuncResult) {
	res = p.verifyFunc(fi, spec, false)
	if res.Err != nil && !res.Trusted && (len(spec.Loops) > 0 || len(spec.Asserts) > 0) {
		first := res.Err
		deg := *spec
		deg.Loops = map[int]*LoopSpec{}
		deg.Asserts = nil
		r2 := p.verifyFunc(fi, &deg, true)
		if r2.Err == nil {
			r2.Spec = spec
			r2.Notes = append(r2.Notes, fmt.Sprintf("proof annotations of %s do not apply to the current code (%v): verified with loop invariants/anchors dropped; failures count only with a replayed counterexample", fi.Key, first))
			// `assert @anchor` clauses are claims, not only proof hints: when they can no longer be stated on the
			// code (an anchor or a name they use has disappeared) the claim is not established
			n := 0
			for _, c := range spec.Asserts {
				if c.Kind != "assert" {
					continue
				}
				n++
				props := c.Props
				if props == nil {
					props = spec.Serves
				}
				why := fmt.Sprintf("the clause `assert @%s: %s` of %s can no longer be stated on the current code (%v)", c.Name, c.Text, fi.Key, first)
				r2.Obls = append(r2.Obls, &Obligation{Name: fmt.Sprintf("%s/contract-verifiable/assert%d", fi.Key, n), Kind: "contract-verifiable", Props: props, Func: fi.FullKey(),
					Text: why, Where: c.Where, Goal: "false", Result: &SolveResult{Status: "unknown", Backend: "none", Output: why, All: map[string]string{}}})
			}
			return r2
		}
	}
	return res
}

var reCallerFresh = regexp.MustCompile(`^callerfresh\((\w+)\)$`)

func (p *Prog) verifyFunc(fi *FuncInfo, spec *FuncSpec, degraded bool, unroll ...int) (res *FuncResult) {
	res = &FuncResult{Key: fi.FullKey(), Spec: spec}
	if spec.Trusted {
		res.Trusted = true
		res.Notes = append(res.Notes, "trusted: body of "+fi.Key+" not verified ("+spec.Opts["trusted_reason"]+")")
		return
	}
	vc := &VC{p: p, u: p.u, fi: fi, spec: spec, curProp: p.curProp, info: fi.Pkg.TypesInfo, pkg: fi.Pkg.Types,
		declSeen: map[string]bool{}, heap0: map[string]Term{}, heapSort: map[string]string{}, heapElemT: map[string]types.Type{},
		counters: map[string]int{}, params: map[string]types.Object{}, paramTerm: map[string]Term{},
		closures: map[string]*funcVal{}, litResults: map[*ast.FuncLit][]*types.Var{}, odSeen: map[string]bool{}, callCovered: map[string]bool{}, usedLoops: map[int]bool{}, usedSpecs: map[string]bool{}, usedAnchors: map[string]bool{}, lazyHeaps: map[string]Term{}, havocKnown: map[string]map[string]bool{}}
	if len(unroll) > 0 {
		vc.unroll = unroll[0]
		p.u.boundedWF = unroll[0] + 1
		defer func() { p.u.boundedWF = 0 }()
	}
	defer func() {
		if r := recover(); r != nil {
			if ue, ok := r.(unsupportedErr); ok {
				res.Err = ue
				res.Obls = nil
				return
			}
			if e, ok := r.(error); ok && strings.HasPrefix(e.Error(), "UNSUPPORTED") {
				res.Err = e
				res.Obls = nil
				return
			}
			panic(r)
		}
	}()
	// type parameter instantiation
	vc.ts = TSubst{}
	sig := fi.Sig
	addTP := func(tps *types.TypeParamList) {
		for i := 0; tps != nil && i < tps.Len(); i++ {
			tp := tps.At(i)
			if inst, ok := spec.Opts["inst."+tp.Obj().Name()]; ok {
				e, err := parseSpecExpr(inst)
				if err != nil {
					panic(unsupported("bad instantiation " + inst))
				}
				t, _ := vc.resolveType(e, vc.pkg)
				vc.ts[tp] = t
			}
		}
	}
	addTP(sig.TypeParams())
	addTP(sig.RecvTypeParams())
	if fi.Outer != nil {
		addTP(fi.Outer.Sig.TypeParams())
		addTP(fi.Outer.Sig.RecvTypeParams())
	}
	vc.loopOrd = numberLoops(fi.Body())
	vc.addrTaken = vc.addressTaken(fi.Body())
	st := &State{vars: map[types.Object]Term{}, heap: map[string]Term{}, alloc: "alloc@0", ghost: map[string]Term{},
		alias: map[types.Object]*aliasOrigin{}, freshSl: map[types.Object]bool{}, cells: map[types.Object]Term{}}
	vc.declare("alloc@0", "Int")
	vc.base = append(vc.base, "(>= alloc@0 1)")
	bindParam := func(v *types.Var, name string) {
		t := vc.ts.apply(v.Type())
		sym := vc.mk("p$"+sanitize(name), t)
		vc.declare(sym.S, sym.Sort)
		vc.base = append(vc.base, vc.u.WF(sym.S, t, "alloc@0"))
		st.vars[v] = sym
		vc.params[name] = v
		vc.paramTerm[name] = sym
		vc.inputs = append(vc.inputs, ReplayInput{Name: name, Term: sym})
	}
	names := p.paramNames(spec, sig)
	idx := 0
	if r := sig.Recv(); r != nil {
		// the receiver object of the declaration
		var robj *types.Var = r
		if fi.Decl != nil && fi.Decl.Recv != nil && len(fi.Decl.Recv.List) > 0 && len(fi.Decl.Recv.List[0].Names) > 0 {
			if o, ok := vc.info.Defs[fi.Decl.Recv.List[0].Names[0]].(*types.Var); ok {
				robj = o
			}
		}
		bindParam(robj, names[0])
		idx = 1
	}
	var ftype *ast.FuncType
	if fi.Decl != nil {
		ftype = fi.Decl.Type
	} else {
		ftype = fi.Lit.Type
	}
	k := 0
	if ftype.Params != nil {
		for _, f := range ftype.Params.List {
			if len(f.Names) == 0 {
				k++
				continue
			}
			for _, n := range f.Names {
				if o, ok := vc.info.Defs[n].(*types.Var); ok && n.Name != "_" {
					bindParam(o, names[idx+k])
				}
				k++
			}
		}
	}
	// closures verified on their own: captured variables are inputs
	if fi.Lit != nil {
		seen := map[types.Object]bool{}
		ast.Inspect(fi.Lit.Body, func(nd ast.Node) bool {
			id, ok := nd.(*ast.Ident)
			if !ok {
				return true
			}
			o, ok := vc.info.Uses[id].(*types.Var)
			if !ok || seen[o] || o.IsField() {
				return true
			}
			if o.Parent() == o.Pkg().Scope() {
				return true
			}
			if o.Pos() >= fi.Lit.Pos() && o.Pos() <= fi.Lit.End() {
				return true
			}
			seen[o] = true
			bindParam(o, o.Name())
			return true
		})
	}
	// results
	var results []*types.Var
	if ftype.Results != nil {
		j := 0
		for _, f := range ftype.Results.List {
			if len(f.Names) == 0 {
				rv := types.NewVar(token.NoPos, vc.pkg, fmt.Sprintf("$res%d", j), sig.Results().At(j).Type())
				results = append(results, rv)
				vc.resultNames = append(vc.resultNames, fmt.Sprintf("result%d", j))
				j++
				continue
			}
			for _, n := range f.Names {
				rv, _ := vc.info.Defs[n].(*types.Var)
				if rv == nil {
					rv = types.NewVar(token.NoPos, vc.pkg, fmt.Sprintf("$res%d", j), sig.Results().At(j).Type())
				}
				results = append(results, rv)
				vc.resultNames = append(vc.resultNames, n.Name)
				j++
			}
		}
	}
	for _, rv := range results {
		st.vars[rv] = vc.u.Zero(vc.ts.apply(rv.Type()))
	}
	vc.results = results
	// trusted axioms are available in every function
	for _, a := range p.con.Facts {
		if a.Kind == "axiom" && (!a.Hidden || hasProp(spec.Uses, a.Name)) {
			aenv := &SpecEnv{vc: vc, st: st, old: st, vars: map[string]Term{}, pkg: vc.pkg}
			if pk, ok := p.pkgs[a.Pkg]; ok {
				aenv.pkg = pk.Types
			}
			vc.base = append(vc.base, aenv.evalBool(a.Expr))
		}
	}
	vc.entry = st.clone()
	// preconditions
	env := vc.specEnv(st, vc.entry)
	var reqs []string
	for _, r := range spec.Requires {
		if !vc.wanted(r.Props) {
			continue
		}
		if m := reCallerFresh.FindStringSubmatch(r.Text); m != nil && strings.TrimSpace(r.Text) == m[0] {
			// `requires callerfresh(p)` is an obligation of the caller (the object is its own, unshared allocation);
			// inside the callee it licenses writes to p even if p's type is declared immutable
			if t, ok := vc.paramTerm[m[1]]; ok {
				vc.constructing = append(vc.constructing, t.S)
			}
			continue
		}
		f := env.evalBool(r.Expr)
		reqs = append(reqs, f)
		st.assume(f)
	}
	vc.entry = st.clone()
	// vacuity: the preconditions must be satisfiable
	if len(reqs) > 0 {
		o := vc.oblige(st, "cover-requires", "preconditions of "+fi.Key+" are jointly satisfiable", spec.Where, "false", nil)
		if o != nil {
			o.Cover = true
		}
	}
	sink := &retSink{results: results}
	vc.sinks = []*retSink{sink}
	outs := vc.execBlock([]*State{st}, fi.Body().List)
	// falling off the end = return
	for _, o := range outs {
		sink.exits = append(sink.exits, vc.runDefers(o)...)
	}
	// vacuity: some exit of the function must be reachable (unless the entry state is not): a path that dies on a
	// contradictory assumption would otherwise make the postconditions and @exit claims trivially true
	if len(sink.exits) > 0 && spec.Opts["noreturn"] != "true" {
		base := len(vc.entry.facts)
		var alts []string
		ok := true
		for _, ex := range sink.exits {
			if len(ex.facts) < base {
				ok = false
				break
			}
			alts = append(alts, and(ex.facts[base:]...))
		}
		if ok {
			cst := vc.entry.clone()
			cst.assume(or(alts...))
			if o := vc.oblige(cst, "cover-exit", "some exit of "+fi.Key+" is reachable", spec.Where, "false", nil); o != nil {
				o.Cover = true
				o.PreFacts = append([]string(nil), vc.entry.facts...)
			}
		}
	}
	// postconditions at every exit
	for _, ex := range sink.exits {
		vc.checkPost(ex)
	}
	if len(sink.exits) == 0 && spec.Opts["noreturn"] != "true" {
		vc.note("function has no normal exit")
	}
	for n := range spec.Loops {
		if !vc.usedLoops[n] {
			panic(unsupported(fmt.Sprintf("contract of %s names loop %d which does not exist", fi.Key, n)))
		}
	}
	for _, c := range spec.Asserts {
		if !vc.usedAnchors[c.Name] {
			panic(unsupported(fmt.Sprintf("contract of %s uses anchor @%s which does not exist", fi.Key, c.Name)))
		}
	}
	for _, o := range vc.obls {
		o.Facts = append(o.Facts, vc.boundAssume...)
		o.Weak = len(vc.abstracted) > 0 || degraded
		o.Decls = vc.decls
		o.Facts = append(append([]string(nil), vc.base...), o.Facts...)
		if o.PreFacts != nil {
			o.PreFacts = append(append([]string(nil), vc.base...), o.PreFacts...)
		}
		o.Inputs = vc.inputs
	}
	res.Obls = vc.obls
	res.Notes = vc.notes
	for k := range vc.usedSpecs {
		res.Used = append(res.Used, k)
	}
	sort.Strings(res.Used)
	return
}

func (vc *VC) checkPost(ex *State) {
	env := vc.specEnv(ex, vc.entry)
	// parameters in postconditions denote their entry values (Go parameters are mutable)
	for n, t := range vc.paramTerm {
		env.vars[n] = t
	}
	for i, rv := range vc.results {
		v := ex.vars[rv]
		env.vars[vc.resultNames[i]] = v
		env.vars[fmt.Sprintf("result%d", i)] = v
		if len(vc.results) == 1 {
			env.vars["result"] = v
		}
	}
	env.allocOld = "alloc@0"
	for _, e := range vc.spec.Ensures {
		if !vc.wanted(e.Props) {
			continue
		}
		g := env.evalBool(e.Expr)
		vc.oblige(ex, "post", e.Text, e.Where, g, e.Props)
	}
	// `assert @exit: e` clauses see the locals of the function at the exit
	vc.anchors([]*State{ex}, "exit", nil)
	if vc.spec.Pure {
		vc.checkFrame(ex, vc.entry, nil, "frame", vc.spec.Where, vc.entry)
	} else if vc.spec.HasWrites {
		vc.checkFrame(ex, vc.entry, vc.spec.Writes, "frame", vc.spec.Where, vc.entry)
	}
}
