package main

import (
	"runtime"
	"bytes"
	"context"
	"fmt"
	"os"
	"os/exec"
	"path/filepath"
	"regexp"
	"strings"
	"sync"
	"syscall"
	"time"
)

type SolveResult struct {
	Status  string // unsat | sat | unknown | timeout | error
	Backend string
	Ms      int64
	Output  string
	Model   string
	File    string
	All     map[string]string // backend -> status (thorough)
	Stage   int               // 0 syntactic, 1 short race, 2 portfolio
}

var reSym = regexp.MustCompile(`[^\s()]+`)

// smtText renders an obligation as an SMT-LIB 2 script.
func (u *Universe) smtText(o *Obligation, forCVC5 bool, wantModel bool) string {
	var body strings.Builder
	for _, f := range o.Facts {
		body.WriteString("(assert ")
		body.WriteString(canonBound(f))
		body.WriteString(")\n")
	}
	body.WriteString("(assert (not ")
	body.WriteString(canonBound(o.Goal))
	body.WriteString("))\n")
	text := body.String()
	syms := map[string]bool{}
	for _, s := range reSym.FindAllString(text, -1) {
		syms[s] = true
	}
	var b strings.Builder
	if wantModel {
		b.WriteString("(set-option :produce-models true)\n")
	}
	if forCVC5 {
		b.WriteString("(set-logic ALL)\n")
	}
	b.WriteString("; obligation " + o.Name + "\n; clause: " + strings.ReplaceAll(o.Text, "\n", " ") + "\n")
	for _, d := range u.sortDecls {
		b.WriteString(d)
		b.WriteByte('\n')
	}
	for _, d := range u.funDecls {
		b.WriteString(d)
		b.WriteByte('\n')
	}
	ld, la := u.litDecls(text)
	for _, d := range ld {
		b.WriteString(d)
		b.WriteByte('\n')
	}
	for _, d := range o.Decls {
		// "(declare-fun NAME () SORT)"
		name := strings.Fields(d)[1]
		if syms[name] {
			b.WriteString(d)
			b.WriteByte('\n')
		}
	}
	for _, a := range u.axioms {
		if o.Relaxed && (strings.Contains(a, "s.cat") || strings.Contains(a, "s.sub")) && !strings.Contains(text, "s.cat") && !strings.Contains(text, "s.sub") {
			continue
		}
		b.WriteString("(assert " + a + ")\n")
	}
	for _, a := range la {
		b.WriteString("(assert " + a + ")\n")
	}
	if o.Relaxed {
		// candidate-model search: strings are short, and short strings with equal bytes are equal (so that the
		// Go values built from the model are distinct exactly when the model's strings are)
		b.WriteString("(assert (forall ((a Str) (b Str)) (! (=> (and (= (s.len a) (s.len b)) (<= (s.len a) 3) (= (s.at a 0) (s.at b 0)) (= (s.at a 1) (s.at b 1)) (= (s.at a 2) (s.at b 2))) (= a b)) :pattern ((s.len a) (s.len b)))))\n")
	}
	b.WriteString(text)
	b.WriteString("(check-sat)\n")
	if wantModel {
		b.WriteString("(get-model)\n")
	}
	return b.String()
}

type solverCfg struct {
	name string
	args func(file string, timeoutS int) []string
	cvc5 bool
}

var solvers = []solverCfg{
	{"z3-new", func(f string, t int) []string { return []string{"z3-new", fmt.Sprintf("-T:%d", t), f} }, false},
	{"z3-new/ematch", func(f string, t int) []string {
		return []string{"z3-new", fmt.Sprintf("-T:%d", t), "smt.auto_config=false", "smt.mbqi=false", f}
	}, false},
	{"z3", func(f string, t int) []string { return []string{"z3", fmt.Sprintf("-T:%d", t), f} }, false},
	{"z3/ematch", func(f string, t int) []string {
		return []string{"z3", fmt.Sprintf("-T:%d", t), "smt.auto_config=false", "smt.mbqi=false", f}
	}, false},
	{"cvc5", func(f string, t int) []string {
		return []string{"cvc5", "--incremental", fmt.Sprintf("--tlimit=%d", t*1000), f}
	}, true},
	{"cvc5/enum", func(f string, t int) []string {
		return []string{"cvc5", "--incremental", "--enum-inst", fmt.Sprintf("--tlimit=%d", t*1000), f}
	}, true},
	// definitional axioms of opaque defines expanded as macros (unfolding steps that e-matching does not find)
	{"z3-new/macro", func(f string, t int) []string {
		return []string{"z3-new", fmt.Sprintf("-T:%d", t), "smt.macro_finder=true", f}
	}, false},
}

var macroSolver = 6

// solverSem bounds the number of solver processes running at once: a time-out is CPU time only if the process has
// a core to itself (stage 2 races some twenty variants per obligation)
var solverSem = make(chan struct{}, max(4, runtime.NumCPU()))

// wallCap is the wall-clock limit that goes with a CPU-time limit of t seconds: generous, because the verdict must
// not depend on what else the machine is doing (several checks at once, a busy host). It only stops a solver that
// is starved of CPU altogether.
func wallCap(t int) int { return 6*t + 10 }

// runSolver runs one solver process under a CPU-time limit of timeoutS seconds (RLIMIT_CPU, set by the shell that
// execs the solver) and the wall-clock cap above. A limit in CPU time makes "decided within the limit" a property
// of the query and the solver, not of the load on the machine; ms is the CPU time the process used.
func runSolver(ctx context.Context, sc solverCfg, file string, timeoutS int) (status, out string, ms int64) {
	select {
	case solverSem <- struct{}{}:
		defer func() { <-solverSem }()
	case <-ctx.Done():
		return "unknown", "cancelled", 0
	}
	wall := wallCap(timeoutS)
	args := sc.args(file, wall)
	cctx, cancel := context.WithTimeout(ctx, time.Duration(wall+2)*time.Second)
	defer cancel()
	sh := fmt.Sprintf("ulimit -t %d; exec \"$0\" \"$@\"", timeoutS)
	cmd := exec.CommandContext(cctx, "/bin/sh", append([]string{"-c", sh}, args...)...)
	var buf bytes.Buffer
	cmd.Stdout = &buf
	cmd.Stderr = &buf
	t0 := time.Now()
	_ = cmd.Run()
	ms = time.Since(t0).Milliseconds()
	killedByLimit := false
	if ps := cmd.ProcessState; ps != nil {
		if cpu := (ps.UserTime() + ps.SystemTime()).Milliseconds(); cpu > 0 {
			ms = cpu
		}
		if ws, ok := ps.Sys().(syscall.WaitStatus); ok && ws.Signaled() && (ws.Signal() == syscall.SIGXCPU || ws.Signal() == syscall.SIGKILL) && ctx.Err() == nil {
			killedByLimit = true
		}
	}
	out = buf.String()
	first := ""
	for _, ln := range strings.Split(out, "\n") {
		// the verdict is the first line that is not a solver warning
		if t := strings.TrimSpace(ln); t != "" && !strings.HasPrefix(t, "WARNING") {
			first = t
			break
		}
	}
	switch first {
	case "unsat", "sat", "unknown":
		status = first
	case "timeout":
		status = "timeout"
	default:
		if cctx.Err() != nil || killedByLimit {
			status = "timeout"
		} else if strings.Contains(out, "timeout") || strings.Contains(out, "interrupted") {
			status = "timeout"
		} else {
			status = "error"
		}
	}
	return
}

// Solve discharges one obligation with the solver portfolio.
func (u *Universe) Solve(o *Obligation, dir string, timeoutS int, thorough bool) *SolveResult {
	base := filepath.Join(dir, sanitize(o.Name))
	fz := base + ".smt2"
	fc := base + ".cvc5.smt2"
	os.WriteFile(fz, []byte(u.smtText(o, false, true)), 0o644)
	res := &SolveResult{File: fz, All: map[string]string{}}
	if o.Cover {
		// vacuity probes only need "not unsat": a short single run is enough
		st, out, ms := runSolver(context.Background(), solvers[0], fz, 2)
		if st == "unsat" && o.PreFacts != nil {
			// the path may have been dead before the call: then the call is not to blame
			n := *o
			n.Facts = o.PreFacts
			fp := base + ".pre.smt2"
			os.WriteFile(fp, []byte(u.smtText(&n, false, false)), 0o644)
			if st2, _, ms2 := runSolver(context.Background(), solvers[0], fp, 5); st2 == "unsat" {
				st, out = "unknown", "dead path before the call"
				ms += ms2
			}
		}
		res.Status, res.Backend, res.Ms, res.Output = st, "z3-new", ms, out
		return res
	}
	// stage 0: the goal is, up to the names of bound variables, one of the assumed facts (invariants that only talk
	// about the loop-entry state are preserved this way; solvers do not recognise alpha-equivalent quantified formulas)
	if g := alphaNorm(o.Goal); strings.Contains(g, "!Q") {
		for _, f := range o.Facts {
			if len(f) == len(o.Goal) && alphaNorm(f) == g {
				res.Status, res.Backend, res.Ms, res.Output = "unsat", "syntactic", 0, "goal is alpha-equivalent to an assumption"
				return res
			}
		}
	}
	ctx, cancel := context.WithCancel(context.Background())
	defer cancel()
	// stage 1: z3-new in its default and its e-matching configuration, short
	quickT := min(timeoutS, 3)
	type a1 struct {
		name, st, out string
		ms            int64
	}
	c1 := make(chan a1, 2)
	ctx1, cancel1 := context.WithCancel(ctx)
	for i, nm := range []string{"z3-new", "z3-new/ematch"} {
		i, nm := i, nm
		go func() {
			s, o2, m := runSolver(ctx1, solvers[i], fz, quickT)
			c1 <- a1{nm, s, o2, m}
		}()
	}
	var st, out string
	var ms int64
	for k := 0; k < 2; k++ {
		a := <-c1
		res.All[a.name] = a.st
		if a.st == "unsat" || (a.st == "sat" && a.name == "z3-new") {
			cancel1()
			res.Status, res.Backend, res.Ms, res.Output = a.st, a.name, a.ms, a.out
			res.Stage = 1
			if a.st == "sat" {
				res.Model = a.out
			}
			if thorough {
				// cross-check the verdict on an independent back end (z3 4.8.12); only a contradicting verdict counts
				cs, _, cms := runSolver(ctx, solvers[2], fz, 10)
				res.All["z3(cross-check)"] = cs
				res.Ms += cms
				if (cs == "unsat" || cs == "sat") && cs != a.st {
					res.Status = "error"
					res.Output = fmt.Sprintf("solver disagreement: %s=%s z3=%s", a.name, a.st, cs)
				}
			}
			return res
		}
		if a.name == "z3-new" {
			st, out, ms = a.st, a.out, a.ms
		}
	}
	cancel1()
	_ = st
	if u.stage1Only {
		res.Status, res.Backend, res.Ms, res.Output, res.Stage = "unknown", "none", ms, out, 1
		return res
	}
	// stage 2: race all back ends, plus sliced variants (dropping assumptions is sound: it can only lose proofs)
	os.WriteFile(fc, []byte(u.smtText(o, true, true)), 0o644)
	type variant struct {
		sc   solverCfg
		file string
		name string
	}
	var variants []variant
	for _, sc := range solvers {
		f := fz
		if sc.cvc5 {
			f = fc
		}
		variants = append(variants, variant{sc, f, sc.name})
	}
	for _, hops := range []int{1, 2, 3} {
		so := sliceObligation(o, hops)
		if so == nil || len(so.Facts) == len(o.Facts) {
			continue
		}
		fs := fmt.Sprintf("%s.slice%d.smt2", base, hops)
		os.WriteFile(fs, []byte(u.smtText(so, false, false)), 0o644)
		variants = append(variants, variant{solvers[0], fs, fmt.Sprintf("z3-new/slice%d", hops)})
		variants = append(variants, variant{solvers[1], fs, fmt.Sprintf("z3-new/ematch/slice%d", hops)})
	}
	// tail variants: only the most recent facts (chains of anchor assertions build on the step just assumed; in
	// isolation such a step is immediate, within hundreds of quantified facts it is not found)
	for _, k := range []int{1, 2, 4, 8} {
		if len(o.Facts) <= k {
			continue
		}
		n := *o
		tail := o.Facts[len(o.Facts)-k:]
		// definitional axioms of opaque defines (od$...) named by the goal or the tail stay available
		need := map[string]bool{}
		for _, t := range append([]string{o.Goal}, tail...) {
			for _, m := range reOdSym.FindAllString(t, -1) {
				need[m] = true
			}
		}
		n.Facts = nil
		seenAx := map[string]bool{}
		for _, f := range o.Facts[:len(o.Facts)-k] {
			if strings.HasPrefix(f, "(forall") && strings.Contains(f, ":pattern ((od$") {
				if m := reOdSym.FindString(f[strings.Index(f, ":pattern ((od$"):]); need[m] && !seenAx[m] {
					seenAx[m] = true
					n.Facts = append(n.Facts, f)
				}
			} else if !strings.Contains(f, "(forall ") && !strings.Contains(f, "(exists ") && len(f) < 400 {
				// small ground facts (allocation order, path conditions) cost nothing and are often needed to
				// identify two readings of the same location
				n.Facts = append(n.Facts, f)
			}
		}
		n.Facts = append(n.Facts, tail...)
		n.Result = nil
		fs := fmt.Sprintf("%s.tail%d.smt2", base, k)
		os.WriteFile(fs, []byte(u.smtText(&n, false, false)), 0o644)
		variants = append(variants, variant{solvers[0], fs, fmt.Sprintf("z3-new/slice-tail%d", k)})
		if len(need) > 0 {
			variants = append(variants, variant{solvers[macroSolver], fs, fmt.Sprintf("z3-new/macro/slice-tail%d", k)})
		}
	}
	if u.retryLite {
		// second-chance pass: only the z3 5.1 configurations on the full and the cone-of-influence sliced queries
		// (eight processes: one round on this machine)
		var keep []variant
		for _, v := range variants {
			if strings.HasPrefix(v.name, "z3-new") && !strings.Contains(v.name, "tail") && !strings.Contains(v.name, "macro") {
				keep = append(keep, v)
			}
		}
		variants = keep
	}
	type ans struct {
		name, st, out string
		ms            int64
	}
	ch := make(chan ans, len(variants))
	var wg sync.WaitGroup
	for _, v := range variants {
		v := v
		wg.Add(1)
		go func() {
			defer wg.Done()
			s, o2, m := runSolver(ctx, v.sc, v.file, timeoutS)
			if strings.Contains(v.name, "/slice") && s != "unsat" {
				s = "unknown" // a model of a sliced query is not a model of the obligation
			}
			ch <- ans{v.name, s, o2, m}
		}()
	}
	go func() { wg.Wait(); close(ch) }()
	best := ans{name: "none", st: "unknown", out: out, ms: ms}
	for a := range ch {
		res.All[a.name] = a.st
		if a.st == "unsat" || a.st == "sat" {
			if best.st != "unsat" && best.st != "sat" {
				best = a
				if !thorough {
					cancel()
				} else {
					// thorough: leave the other back ends a few more seconds to contradict, then stop them
					time.AfterFunc(5*time.Second, cancel)
				}
			} else if best.st != a.st {
				res.Status = "error"
				res.Output = fmt.Sprintf("solver disagreement: %s=%s %s=%s", best.name, best.st, a.name, a.st)
				return res
			}
		} else if best.st != "unsat" && best.st != "sat" {
			// (cvc5 rejects constant arrays over uninterpreted constants - a parse error there says nothing about
			// the obligation and must not be reported as the solver's reason)
			if a.st == "error" && best.st != "error" && !strings.HasPrefix(a.name, "cvc5") {
				// keep first error output for diagnosis if nothing better
				if best.name == "none" {
					best = a
				}
			}
		}
	}
	res.Status, res.Backend, res.Ms, res.Output = best.st, best.name, best.ms, best.out
	res.Stage = 2
	if best.st == "sat" {
		res.Model = best.out
	}
	if res.Status == "error" {
		// an error on one back end is only fatal if no back end decided
		res.Status = "unknown"
	}
	return res
}

// SolveAll runs obligations in parallel.
func (u *Universe) SolveAll(obls []*Obligation, dir string, timeoutS int, thorough bool, par int) {
	os.MkdirAll(dir, 0o755)
	sem := make(chan struct{}, par)
	var wg sync.WaitGroup
	for _, o := range obls {
		o := o
		if o.Result != nil {
			continue
		}
		wg.Add(1)
		sem <- struct{}{}
		go func() {
			defer wg.Done()
			defer func() { <-sem }()
			o.Result = u.Solve(o, dir, timeoutS, thorough)
		}()
	}
	wg.Wait()
}

// sliceObligation keeps the facts within `hops` symbol-sharing steps of the goal (cone of influence).
func sliceObligation(o *Obligation, hops int) *Obligation {
	declared := map[string]bool{}
	for _, d := range o.Decls {
		fs := strings.Fields(d)
		if len(fs) > 1 {
			declared[fs[1]] = true
		}
	}
	symsOf := func(t string) []string {
		var out []string
		for _, s := range reSym.FindAllString(t, -1) {
			// allocation frontiers connect everything: they do not propagate relevance
			if declared[s] && !strings.HasPrefix(s, "alloc") {
				out = append(out, s)
			}
		}
		return out
	}
	rel := map[string]bool{}
	for _, s := range symsOf(o.Goal) {
		rel[s] = true
	}
	factSyms := make([][]string, len(o.Facts))
	for i, f := range o.Facts {
		factSyms[i] = symsOf(f)
	}
	keep := make([]bool, len(o.Facts))
	for h := 0; h < hops; h++ {
		var add []string
		for i, ss := range factSyms {
			if keep[i] {
				continue
			}
			hit := len(ss) == 0
			for _, s := range ss {
				if rel[s] {
					hit = true
					break
				}
			}
			if hit {
				keep[i] = true
				add = append(add, ss...)
			}
		}
		for _, s := range add {
			rel[s] = true
		}
	}
	n := *o
	n.Facts = nil
	for i, f := range o.Facts {
		if keep[i] {
			n.Facts = append(n.Facts, f)
		}
	}
	n.Result = nil
	return &n
}

// SolveAllQuick: single back end (z3-new), short timeout; used for candidate-model search only.
func (u *Universe) SolveAllQuick(obls []*Obligation, dir string, timeoutS int, par int) {
	os.MkdirAll(dir, 0o755)
	sem := make(chan struct{}, par)
	var wg sync.WaitGroup
	for _, o := range obls {
		o := o
		wg.Add(1)
		sem <- struct{}{}
		go func() {
			defer wg.Done()
			defer func() { <-sem }()
			f := filepath.Join(dir, sanitize(o.Name)+".smt2")
			os.WriteFile(f, []byte(u.smtText(o, false, true)), 0o644)
			st, out, ms := runSolver(context.Background(), solvers[0], f, timeoutS)
			o.Result = &SolveResult{Status: st, Backend: "z3-new", Ms: ms, Output: out, File: f, All: map[string]string{}}
			if st == "sat" {
				o.Result.Model = out
			}
		}()
	}
	wg.Wait()
}

var reOdSym = regexp.MustCompile(`od\$[A-Za-z0-9_.]+\$[0-9a-f]+`)

var boundVarRe = regexp.MustCompile(`![qw][0-9]+`)

// alphaNorm renames bound variables (x!q12, y!w3) in order of first occurrence.
func alphaNorm(f string) string {
	m := map[string]string{}
	return boundVarRe.ReplaceAllStringFunc(f, func(x string) string {
		if r, ok := m[x]; ok {
			return r
		}
		r := fmt.Sprintf("!Q%d", len(m))
		m[x] = r
		return r
	})
}
