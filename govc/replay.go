package main

import (
	"bytes"
	"context"
	"encoding/json"
	"fmt"
	"go/ast"
	"go/token"
	"go/types"
	"os"
	"os/exec"
	"path/filepath"
	"strconv"
	"strings"
	"time"
)

// ---------------------------------------------------------------------------------------
// Counterexample replay: decode the model of the function's inputs, build them in an
// in-package Go test injected with -overlay (nothing is written into the repository), run the
// REAL function and evaluate the failed clause in Go.

const (
	maxStrBytes = 160
	maxElems    = 6
)

type valueQuery struct {
	term string
}

type modelVals map[string]string

// sexpr parsing -------------------------------------------------------------------------

type sx struct {
	atom string
	list []*sx
}

func parseSx(s string) []*sx {
	var stack [][]*sx
	cur := []*sx{}
	i := 0
	for i < len(s) {
		c := s[i]
		switch {
		case c == '(':
			stack = append(stack, cur)
			cur = []*sx{}
			i++
		case c == ')':
			n := &sx{list: cur}
			if len(stack) == 0 {
				return cur
			}
			cur = stack[len(stack)-1]
			stack = stack[:len(stack)-1]
			cur = append(cur, n)
			i++
		case c == ' ' || c == '\n' || c == '\t' || c == '\r':
			i++
		case c == ';':
			for i < len(s) && s[i] != '\n' {
				i++
			}
		case c == '"':
			j := i + 1
			for j < len(s) && s[j] != '"' {
				j++
			}
			cur = append(cur, &sx{atom: s[i:min(j+1, len(s))]})
			i = j + 1
		case c == '|':
			j := i + 1
			for j < len(s) && s[j] != '|' {
				j++
			}
			cur = append(cur, &sx{atom: s[i:min(j+1, len(s))]})
			i = j + 1
		default:
			j := i
			for j < len(s) && !strings.ContainsRune("() \n\t\r", rune(s[j])) {
				j++
			}
			cur = append(cur, &sx{atom: s[i:j]})
			i = j
		}
	}
	return cur
}

func (x *sx) String() string {
	if x.list == nil && x.atom != "" {
		return x.atom
	}
	parts := make([]string, len(x.list))
	for i, e := range x.list {
		parts[i] = e.String()
	}
	return "(" + strings.Join(parts, " ") + ")"
}

func sxInt(x *sx) (int64, bool) {
	if x.list == nil {
		n, err := strconv.ParseInt(x.atom, 10, 64)
		if err != nil {
			// may exceed int64 (uint64): try unsigned
			u, err2 := strconv.ParseUint(x.atom, 10, 64)
			if err2 == nil {
				return int64(u), true
			}
			return 0, false
		}
		return n, true
	}
	if len(x.list) == 2 && x.list[0].atom == "-" {
		n, ok := sxInt(x.list[1])
		return -n, ok
	}
	return 0, false
}

// evalTerms asks the solver for the values of terms in the model of the obligation.
func (u *Universe) evalTerms(o *Obligation, terms []string) (modelVals, error) {
	if len(terms) == 0 {
		return modelVals{}, nil
	}
	script := u.smtText(o, false, true)
	script = strings.Replace(script, "(get-model)\n", "", 1)
	var b strings.Builder
	b.WriteString(script)
	for _, t := range terms {
		b.WriteString("(get-value (" + t + "))\n")
	}
	f := o.Result.File + ".values.smt2"
	os.WriteFile(f, []byte(b.String()), 0o644)
	ctx, cancel := context.WithTimeout(context.Background(), 30*time.Second)
	defer cancel()
	cmd := exec.CommandContext(ctx, "z3-new", "-T:20", f)
	out, _ := cmd.CombinedOutput()
	lines := strings.SplitN(string(out), "\n", 2)
	if strings.TrimSpace(lines[0]) != "sat" || len(lines) < 2 {
		return nil, fmt.Errorf("model query did not return sat: %s", truncate(string(out), 200))
	}
	res := modelVals{}
	items := parseSx(lines[1])
	k := 0
	for _, it := range items {
		// each get-value returns ((term value))
		for _, pair := range it.list {
			if len(pair.list) == 2 && k < len(terms) {
				res[terms[k]] = pair.list[1].String()
				k++
			}
		}
	}
	if k != len(terms) {
		return nil, fmt.Errorf("model query returned %d of %d values", k, len(terms))
	}
	return res, nil
}

// goValue builds a Go expression for the value of term t (Go type typ) in the model.
// It works in rounds: unknown terms are queued and the whole construction is retried.
type goBuilder struct {
	p       *Prog
	vc      *VC
	o       *Obligation
	vals    modelVals
	need    []string
	needSet map[string]bool
	fail    string
	pkg     *types.Package
	decls   []string // statements declared before use (for pointers)
	nvar    int
	objs    map[string]string // "type#ref" -> variable
	imports map[string]bool
	// bounded witnesses for map-valued locations: term -> witness constants
	mapWit   map[string][]string
	newFacts []string
	newDecls []string
}

func (g *goBuilder) val(term string) (string, bool) {
	if v, ok := g.vals[term]; ok {
		return v, true
	}
	if !g.needSet[term] {
		g.needSet[term] = true
		g.need = append(g.need, term)
	}
	return "", false
}

func (g *goBuilder) intv(term string) (int64, bool) {
	v, ok := g.val(term)
	if !ok {
		return 0, false
	}
	n, ok2 := sxInt(parseSx(v)[0])
	if !ok2 {
		g.fail = "non-integer model value " + v + " for " + term
	}
	return n, ok2
}

func (g *goBuilder) typeStr(t types.Type) string {
	return types.TypeString(t, func(p *types.Package) string {
		if p == g.pkg {
			return ""
		}
		g.imports[p.Path()] = true
		return p.Name()
	})
}

func (g *goBuilder) build(term string, t types.Type, depth int) string {
	if g.fail != "" {
		return "nil"
	}
	if depth > 6 {
		g.fail = "value nesting too deep"
		return "nil"
	}
	vc := g.vc
	switch tt := under(t).(type) {
	case *types.Basic:
		switch {
		case tt.Info()&types.IsBoolean != 0:
			v, ok := g.val(term)
			if !ok {
				return "false"
			}
			return fmt.Sprintf("%s(%s)", g.typeStr(t), v)
		case tt.Info()&types.IsInteger != 0:
			n, ok := g.intv(term)
			if !ok {
				return "0"
			}
			if tt.Info()&types.IsUnsigned != 0 {
				return fmt.Sprintf("%s(%d)", g.typeStr(t), uint64(n))
			}
			return fmt.Sprintf("%s(%d)", g.typeStr(t), n)
		case tt.Info()&types.IsString != 0:
			ln, ok := g.intv("(s.len " + term + ")")
			if !ok {
				return `""`
			}
			if ln > maxStrBytes {
				g.fail = fmt.Sprintf("model string of length %d exceeds the replay bound", ln)
				return `""`
			}
			bs := make([]byte, ln)
			all := true
			for i := int64(0); i < ln; i++ {
				b, ok := g.intv(fmt.Sprintf("(s.at %s %d)", term, i))
				if !ok {
					all = false
					continue
				}
				bs[i] = byte(b)
			}
			if !all {
				return `""`
			}
			return fmt.Sprintf("%s(%q)", g.typeStr(t), string(bs))
		}
	case *types.Slice:
		s := vc.u.SortOf(t)
		nn, ok1 := g.val("(nn_" + s + " " + term + ")")
		ln, ok2 := g.intv("(len_" + s + " " + term + ")")
		if !ok1 || !ok2 {
			return "nil"
		}
		if nn != "true" {
			return fmt.Sprintf("%s(nil)", g.typeStr(t))
		}
		if ln > maxElems {
			g.fail = fmt.Sprintf("model slice of length %d exceeds the replay bound", ln)
			return "nil"
		}
		var parts []string
		for i := int64(0); i < ln; i++ {
			parts = append(parts, g.build(fmt.Sprintf("(select (arr_%s %s) %d)", s, term, i), vc.ts.apply(tt.Elem()), depth+1))
		}
		return fmt.Sprintf("%s{%s}", g.typeStr(t), strings.Join(parts, ", "))
	case *types.Pointer:
		ref, ok := g.intv(term)
		if !ok {
			return "nil"
		}
		if ref == 0 {
			return fmt.Sprintf("(%s)(nil)", g.typeStr(t))
		}
		et := vc.ts.apply(tt.Elem())
		key := fmt.Sprintf("%s#%d", g.typeStr(t), ref)
		if v, ok := g.objs[key]; ok {
			return v
		}
		g.nvar++
		name := fmt.Sprintf("obj%d", g.nvar)
		g.objs[key] = name
		var init string
		if stt, ok := under(et).(*types.Struct); ok {
			var fs []string
			for i := 0; i < stt.NumFields(); i++ {
				f := stt.Field(i)
				if !f.Exported() && f.Pkg() != g.pkg {
					g.fail = "unexported field of foreign type"
					return "nil"
				}
				hn, _ := vc.fieldHeap(et, f)
				h0, ok := vc.heap0[hn]
				if !ok {
					continue // field never read: leave zero
				}
				fs = append(fs, fmt.Sprintf("%s: %s", f.Name(), g.build(fmt.Sprintf("(select %s %d)", h0.S, ref), vc.ts.apply(f.Type()), depth+1)))
			}
			init = fmt.Sprintf("&%s{%s}", g.typeStr(et), strings.Join(fs, ", "))
		} else {
			hn, _ := vc.cellHeap(et)
			h0, ok := vc.heap0[hn]
			v := "*new(" + g.typeStr(et) + ")"
			if ok {
				v = g.build(fmt.Sprintf("(select %s %d)", h0.S, ref), et, depth+1)
			}
			init = fmt.Sprintf("func() %s { v := %s; return &v }()", g.typeStr(t), v)
		}
		g.decls = append(g.decls, fmt.Sprintf("%s := %s", name, init))
		return name
	case *types.Struct:
		s := vc.u.SortOf(t)
		var fs []string
		for i := 0; i < tt.NumFields(); i++ {
			f := tt.Field(i)
			fs = append(fs, fmt.Sprintf("%s: %s", f.Name(), g.build("("+vc.u.fieldSel(s, f.Name(), i)+" "+term+")", vc.ts.apply(f.Type()), depth+1)))
		}
		return fmt.Sprintf("%s{%s}", g.typeStr(t), strings.Join(fs, ", "))
	case *types.Map:
		ref, ok := g.intv(term)
		if !ok {
			return "nil"
		}
		if ref == 0 {
			return fmt.Sprintf("%s(nil)", g.typeStr(t))
		}
		mi := vc.mapInfo(t)
		dh, okd := vc.heap0[mi.dn]
		if !okd {
			return fmt.Sprintf("%s{}", g.typeStr(t))
		}
		// candidate keys: the closed key terms with which this map heap is indexed anywhere in the query
		// (keys the query never mentions cannot matter for the failing clause)
		cands := g.keyTerms(dh.S)
		vh, okv := vc.heap0[mi.vn]
		var sets []string
		seenKey := map[string]bool{}
		for _, kt := range cands {
			b, okb := g.val(fmt.Sprintf("(select (select %s %s) %s)", dh.S, term, kt))
			if !okb || b != "true" {
				continue
			}
			kexpr := g.build(kt, mi.K, depth+1)
			if seenKey[kexpr] {
				continue
			}
			seenKey[kexpr] = true
			vexpr := "*new(" + g.typeStr(mi.V) + ")"
			if okv {
				vexpr = g.build(fmt.Sprintf("(select (select %s %s) %s)", vh.S, term, kt), mi.V, depth+1)
			}
			sets = append(sets, fmt.Sprintf("m[%s] = %s", kexpr, vexpr))
		}
		return fmt.Sprintf("func() %s { m := %s{}; %s; return m }()", g.typeStr(t), g.typeStr(t), strings.Join(sets, "; "))
	case *types.Interface:
		tag, ok := g.intv("(itag " + term + ")")
		if !ok {
			return "nil"
		}
		if tag == 0 {
			return fmt.Sprintf("%s(nil)", g.typeStr(t))
		}
		if int(tag) > len(vc.u.tagTypes) || tag < 0 {
			g.fail = "model uses a dynamic type outside the known set"
			return "nil"
		}
		dt := vc.u.tagTypes[tag-1]
		inner := vc.unbox(Term{S: term, T: t, Sort: "Iface"}, dt)
		return fmt.Sprintf("%s(%s)", g.typeStr(t), g.build(inner.S, dt, depth+1))
	}
	g.fail = "unsupported input type " + t.String()
	return "nil"
}

// specToGo renders a contract expression as Go source evaluated inside the test.
type goRender struct {
	p         *Prog
	vc        *VC
	fail      string
	funcs     map[string]string // helper functions for defines
	order     []string
	depth     int
	helpers   bool
	oldSuffix string // when set, old(e) is rendered as e with parameters renamed to <param><suffix>
	inOld     bool
}

func (r *goRender) expr(x ast.Expr) string {
	if r.fail != "" {
		return "false"
	}
	switch e := x.(type) {
	case *ast.ParenExpr:
		return "(" + r.expr(e.X) + ")"
	case *ast.BasicLit:
		return e.Value
	case *ast.Ident:
		if r.inOld && r.vc != nil {
			if _, isParam := r.vc.paramTerm[e.Name]; isParam {
				return e.Name + r.oldSuffix
			}
		}
		return e.Name
	case *ast.SelectorExpr:
		return r.expr(e.X) + "." + e.Sel.Name
	case *ast.StarExpr:
		return "*" + r.expr(e.X)
	case *ast.UnaryExpr:
		return e.Op.String() + r.expr(e.X)
	case *ast.BinaryExpr:
		return "(" + r.expr(e.X) + " " + e.Op.String() + " " + r.expr(e.Y) + ")"
	case *ast.IndexExpr:
		return r.expr(e.X) + "[" + r.expr(e.Index) + "]"
	case *ast.CallExpr:
		id, ok := e.Fun.(*ast.Ident)
		if !ok {
			if se, ok := e.Fun.(*ast.SelectorExpr); ok {
				var as []string
				for _, a := range e.Args {
					as = append(as, r.expr(a))
				}
				return r.expr(se.X) + "." + se.Sel.Name + "(" + strings.Join(as, ", ") + ")"
			}
			r.fail = "unsupported call in clause"
			return "false"
		}
		switch id.Name {
		case "imp":
			return "(!(" + r.expr(e.Args[0]) + ") || (" + r.expr(e.Args[1]) + "))"
		case "iff":
			return "((" + r.expr(e.Args[0]) + ") == (" + r.expr(e.Args[1]) + "))"
		case "ite":
			r.helpers = true
			return "govcIte(" + r.expr(e.Args[0]) + ", " + r.expr(e.Args[1]) + ", " + r.expr(e.Args[2]) + ")"
		case "len":
			return "len(" + r.expr(e.Args[0]) + ")"
		case "forall", "exists":
			v := e.Args[0].(*ast.Ident).Name
			lo, hi, body := r.expr(e.Args[1]), r.expr(e.Args[2]), r.expr(e.Args[3])
			if id.Name == "forall" {
				return fmt.Sprintf("func() bool { for %s := int(%s); %s < int(%s); %s++ { if !(%s) { return false } }; return true }()", v, lo, v, hi, v, body)
			}
			return fmt.Sprintf("func() bool { for %s := int(%s); %s < int(%s); %s++ { if %s { return true } }; return false }()", v, lo, v, hi, v, body)
		case "isnil":
			return "govcIsNil(" + r.expr(e.Args[0]) + ")"
		case "typeis":
			return "func() bool { _, ok := any(" + r.expr(e.Args[0]) + ").(" + types.ExprString(e.Args[1]) + "); return ok }()"
		case "as":
			return "any(" + r.expr(e.Args[0]) + ").(" + types.ExprString(e.Args[1]) + ")"
		case "chanbuf":
			r.helpers = true
			return "govcChanBuf(" + r.expr(e.Args[0]) + ")"
		case "chanclosed":
			r.helpers = true
			return "govcChanClosed(" + r.expr(e.Args[0]) + ")"
		case "has":
			return "func() bool { _, ok := " + r.expr(e.Args[0]) + "[" + r.expr(e.Args[1]) + "]; return ok }()"
		case "all":
			// all(k, T, imp(has(m, k), body))  ->  range over m
			if len(e.Args) == 3 {
				if imp, ok := e.Args[2].(*ast.CallExpr); ok {
					if iid, ok := imp.Fun.(*ast.Ident); ok && iid.Name == "imp" && len(imp.Args) == 2 {
						if hc, ok := imp.Args[0].(*ast.CallExpr); ok {
							if hid, ok := hc.Fun.(*ast.Ident); ok && hid.Name == "has" && len(hc.Args) == 2 {
								if kid, ok := hc.Args[1].(*ast.Ident); ok && kid.Name == e.Args[0].(*ast.Ident).Name {
									k := kid.Name
									return fmt.Sprintf("func() bool { for %s := range %s { _ = %s; if !(%s) { return false } }; return true }()", k, r.expr(hc.Args[0]), k, r.expr(imp.Args[1]))
								}
							}
						}
					}
				}
			}
			r.fail = "clause uses all(), which the replay generator can only evaluate in the form all(k, T, has(m, k) ==> body)"
			return "false"
		case "old":
			if r.oldSuffix != "" {
				saved := r.inOld
				r.inOld = true
				out := r.expr(e.Args[0])
				r.inOld = saved
				return out
			}
			r.fail = "clause uses old()"
			return "false"
		case "lold", "fresh", "any", "seq", "seqeq", "unchanged", "card", "box", "allocated", "chancap":
			r.fail = "clause uses " + id.Name + "(), which the replay generator cannot evaluate in Go"
			return "false"
		case "min", "max":
			return id.Name + "(" + r.expr(e.Args[0]) + ", " + r.expr(e.Args[1]) + ")"
		}
		if d, ok := r.p.con.Defines[id.Name]; ok {
			r.define(d)
			var as []string
			i := 0
			for _, f := range d.Params {
				for range f.Names {
					if i < len(e.Args) {
						as = append(as, "("+types.ExprString(f.Type)+")("+r.expr(e.Args[i])+")")
					}
					i++
				}
			}
			return "govcSpec_" + d.Name + "(" + strings.Join(as, ", ") + ")"
		}
		if _, ok := r.p.con.Abstracts[id.Name]; ok {
			r.fail = "clause uses abstract function " + id.Name
			return "false"
		}
		// function of the package or conversion
		var as []string
		for _, a := range e.Args {
			as = append(as, r.expr(a))
		}
		return id.Name + "(" + strings.Join(as, ", ") + ")"
	}
	r.fail = fmt.Sprintf("unsupported clause expression %T", x)
	return "false"
}

func (r *goRender) define(d *Define) {
	if _, ok := r.funcs[d.Name]; ok {
		return
	}
	r.funcs[d.Name] = "" // reserve (recursion guard)
	var ps []string
	for _, f := range d.Params {
		for _, n := range f.Names {
			ps = append(ps, n.Name+" "+types.ExprString(f.Type))
		}
	}
	ret := "bool"
	if d.Ret != nil {
		ret = types.ExprString(d.Ret)
	}
	if ce, ok := d.Body.(*ast.CallExpr); ok {
		if id, ok := ce.Fun.(*ast.Ident); ok && id.Name == "ite" && len(ce.Args) == 3 {
			r.funcs[d.Name] = fmt.Sprintf("func govcSpec_%s(%s) %s { if %s { return %s }; return %s }", d.Name, strings.Join(ps, ", "), ret,
				r.expr(ce.Args[0]), r.expr(ce.Args[1]), r.expr(ce.Args[2]))
			r.order = append(r.order, d.Name)
			return
		}
	}
	body := r.expr(d.Body)
	r.funcs[d.Name] = fmt.Sprintf("func govcSpec_%s(%s) %s { return %s }", d.Name, strings.Join(ps, ", "), ret, body)
	r.order = append(r.order, d.Name)
}

func (p *Prog) tryReplay(o *Obligation, rep *ReplayRecord, repo, dir string) (reproduced bool, note string) {
	defer func() {
		if r := recover(); r != nil {
			reproduced, note = false, fmt.Sprintf("replay generator failed: %v", r)
		}
	}()
	vc := o.vc
	if vc == nil || vc.fi == nil || vc.fi.Decl == nil {
		return false, "no function context for replay"
	}
	isSafety := strings.HasPrefix(o.Kind, "safe-")
	if o.Kind != "post" && !isSafety {
		return false, "internal obligation (" + o.Kind + "): the model constrains an intermediate state, not only the inputs; no input-level replay"
	}
	fi := vc.fi
	sig := fi.Sig
	if sig.TypeParams().Len() > 0 || sig.RecvTypeParams().Len() > 0 {
		return false, "generic function: replay not generated"
	}
	g := &goBuilder{p: p, vc: vc, o: o, vals: modelVals{}, needSet: map[string]bool{}, pkg: fi.Pkg.Types, objs: map[string]string{}, imports: map[string]bool{}, mapWit: map[string][]string{}}
	var argExprs []string
	for round := 0; round < 12; round++ {
		g.need, g.decls, g.objs, g.nvar, g.fail = nil, nil, map[string]string{}, 0, ""
		g.newFacts, g.newDecls = nil, nil
		argExprs = nil
		for _, in := range vc.inputs {
			argExprs = append(argExprs, g.build(in.Term.S, in.Term.T, 0))
		}
		if g.fail != "" {
			return false, "model not materialisable: " + g.fail
		}
		if len(g.newFacts) > 0 {
			// strengthen the candidate-model query (only possible for relaxed queries: the witnesses restrict models)
			no := *o
			no.Facts = append(append([]string(nil), o.Facts...), g.newFacts...)
			no.Decls = append(append([]string(nil), o.Decls...), g.newDecls...)
			o = &no
			g.o = o
		}
		if len(g.need) == 0 && len(g.newFacts) == 0 {
			break
		}
		vals, err := p.u.evalTerms(o, append(keysOf(g.vals), g.need...))
		if err != nil {
			return false, "model evaluation failed: " + err.Error()
		}
		g.vals = vals
		g.needSet = map[string]bool{}
		for k := range vals {
			g.needSet[k] = true
		}
	}
	if len(g.need) > 0 || len(g.newFacts) > 0 {
		return false, "model evaluation did not converge"
	}
	// witness
	rep.Witness = map[string]string{}
	for i, in := range vc.inputs {
		rep.Witness[in.Name] = argExprs[i]
	}
	// test source
	var src strings.Builder
	src.WriteString("package " + fi.Pkg.Types.Name() + "\n\nimport (\n\t\"testing\"\n\t\"fmt\"\n")
	var imps []string
	for ip := range g.imports {
		imps = append(imps, ip)
	}
	for _, ip := range imps {
		src.WriteString("\t" + strconv.Quote(ip) + "\n")
	}
	src.WriteString("\t\"reflect\"\n)\n\nvar _ = fmt.Sprint\n\n" + replayHelpers)
	rnd := &goRender{p: p, vc: vc, funcs: map[string]string{}}
	clause := "true"
	if o.Kind == "post" {
		ex, err := parseSpecExpr(o.Text)
		if err != nil {
			return false, "clause not parsable for replay"
		}
		clause = rnd.expr(ex)
		if rnd.fail != "" {
			return false, "clause not renderable in Go: " + rnd.fail
		}
	}
	// preconditions are re-checked in Go: a candidate model that violates one is not a counterexample
	var reqGo []string
	for _, rq := range vc.spec.Requires {
		g := rnd.expr(rq.Expr)
		if rnd.fail != "" {
			return false, "precondition not renderable in Go: " + rnd.fail
		}
		reqGo = append(reqGo, g)
	}
	for _, n := range rnd.order {
		src.WriteString(rnd.funcs[n] + "\n\n")
	}
	src.WriteString("func TestGovcReplay(t *testing.T) {\n")
	for _, d := range g.decls {
		src.WriteString("\t" + d + "\n")
	}
	names := p.paramNames(vc.spec, sig)
	for i, in := range vc.inputs {
		src.WriteString(fmt.Sprintf("\t%s := %s\n\t_ = %s\n", in.Name, argExprs[i], in.Name))
	}
	callee := fi.Decl.Name.Name
	idx := 0
	if sig.Recv() != nil {
		callee = names[0] + "." + callee
		idx = 1
	}
	var cargs []string
	for i := idx; i < len(names); i++ {
		a := names[i]
		if sig.Variadic() && i == len(names)-1 {
			a += "..."
		}
		cargs = append(cargs, a)
	}
	var resNames []string
	for i := range vc.results {
		n := vc.resultNames[i]
		if strings.HasPrefix(n, "result") && len(vc.results) == 1 {
			n = "result"
		}
		resNames = append(resNames, n)
	}
	for _, g := range reqGo {
		src.WriteString("\tif !(" + g + ") {\n\t\tfmt.Println(\"GOVC-PRECONDITION-VIOLATED\")\n\t\treturn\n\t}\n")
	}
	src.WriteString("\tdefer func() {\n\t\tif r := recover(); r != nil {\n\t\t\tfmt.Printf(\"GOVC-PANIC %v\\n\", r)\n\t\t\tt.Fatalf(\"panic: %v\", r)\n\t\t}\n\t}()\n")
	if len(resNames) > 0 {
		src.WriteString("\t" + strings.Join(resNames, ", ") + " := " + callee + "(" + strings.Join(cargs, ", ") + ")\n")
		for _, n := range resNames {
			src.WriteString("\t_ = " + n + "\n")
		}
		if len(resNames) == 1 && resNames[0] != "result" {
			src.WriteString("\tresult := " + resNames[0] + "\n\t_ = result\n")
		}
	} else {
		src.WriteString("\t" + callee + "(" + strings.Join(cargs, ", ") + ")\n")
	}
	if o.Kind == "post" {
		src.WriteString("\tif !(" + clause + ") {\n\t\tfmt.Println(\"GOVC-REPRODUCED clause violated\")\n\t\tt.Fatalf(\"clause violated: %s\", " + strconv.Quote(o.Text) + ")\n\t}\n")
	}
	src.WriteString("\tfmt.Println(\"GOVC-HOLDS\")\n}\n")
	os.MkdirAll(dir, 0o755)
	testFile := filepath.Join(dir, sanitize(o.Name)+"_replay_test.go")
	os.WriteFile(testFile, []byte(src.String()), 0o644)
	pkgDir := filepath.Dir(p.fset.Position(fi.Decl.Pos()).Filename)
	target := filepath.Join(pkgDir, "zz_govc_replay_test.go")
	ov := map[string]any{"Replace": map[string]string{target: testFile}}
	ovb, _ := json.Marshal(ov)
	ovFile := filepath.Join(dir, sanitize(o.Name)+"_overlay.json")
	os.WriteFile(ovFile, ovb, 0o644)
	cmdline := fmt.Sprintf("cd %s && go test -overlay %s -vet=off -count=1 -timeout 60s -run '^TestGovcReplay$' .", pkgDir, ovFile)
	rep.ReplayCmd = cmdline
	rep.ReplayTest = testFile
	ctx, cancel := context.WithTimeout(context.Background(), 240*time.Second)
	defer cancel()
	cmd := exec.CommandContext(ctx, "go", "test", "-v", "-overlay", ovFile, "-vet=off", "-count=1", "-timeout", "60s", "-run", "^TestGovcReplay$", ".")
	cmd.Dir = pkgDir
	cmd.Env = append(os.Environ(), "GOFLAGS=-mod=mod", "GOPROXY=off", "GOSUMDB=off", "GOTOOLCHAIN=local")
	var buf bytes.Buffer
	cmd.Stdout, cmd.Stderr = &buf, &buf
	_ = cmd.Run()
	out := buf.String()
	rep.ReplayOut = truncate(out, 4000)
	switch {
	case strings.Contains(out, "GOVC-PRECONDITION-VIOLATED"):
		return false, "the candidate model violates a precondition of the function (not a counterexample)"
	case strings.Contains(out, "GOVC-REPRODUCED"):
		return true, "the model's inputs violate the clause on the real code"
	case strings.Contains(out, "GOVC-PANIC") && isSafety:
		return true, "the model's inputs make the real code panic"
	case strings.Contains(out, "GOVC-PANIC"):
		return true, "the model's inputs make the real code panic before the clause can be evaluated"
	case strings.Contains(out, "GOVC-HOLDS"):
		return false, "the model's inputs do not violate the clause on the real code (abstraction artefact or quantifier-incomplete model)"
	}
	return false, "replay test did not run to completion (see replay_output)"
}

func keysOf(m modelVals) []string {
	ks := make([]string, 0, len(m))
	for k := range m {
		ks = append(ks, k)
	}
	return ks
}

var _ = token.NoPos

const replayHelpers = `
func govcIte[T any](c bool, a, b T) T {
	if c {
		return a
	}
	return b
}

var govcBufCache = map[any][]any{}

func govcIsNil(x any) bool {
	if x == nil {
		return true
	}
	v := reflect.ValueOf(x)
	switch v.Kind() {
	case reflect.Chan, reflect.Func, reflect.Map, reflect.Pointer, reflect.Interface, reflect.Slice:
		return v.IsNil()
	}
	return false
}

// govcChanBuf returns what is buffered in ch (draining it once; cached).
func govcChanBuf(ch any) []any {
	if govcIsNil(ch) {
		return nil
	}
	if v, ok := govcBufCache[ch]; ok {
		return v
	}
	v := reflect.ValueOf(ch)
	var out []any
	for {
		x, ok := v.TryRecv()
		if !ok {
			break
		}
		out = append(out, x.Interface())
	}
	govcBufCache[ch] = out
	return out
}

// govcChanClosed: after draining, a receive succeeds immediately with ok=false iff the channel is closed.
func govcChanClosed(ch any) bool {
	if govcIsNil(ch) {
		return false
	}
	govcChanBuf(ch)
	v := reflect.ValueOf(ch)
	chosen, _, ok := reflect.Select([]reflect.SelectCase{{Dir: reflect.SelectRecv, Chan: v}, {Dir: reflect.SelectDefault}})
	return chosen == 0 && !ok
}

`

// keyTerms collects the closed terms T occurring as (select (select <domHeap> X) T) in the obligation.
func (g *goBuilder) keyTerms(domHeap string) []string {
	text := strings.Join(g.o.Facts, "\n") + "\n" + g.o.Goal
	needle := "(select (select " + domHeap + " "
	var out []string
	seen := map[string]bool{}
	for idx := 0; ; {
		i := strings.Index(text[idx:], needle)
		if i < 0 {
			break
		}
		p := idx + i + len(needle)
		x := firstSExpr(text[p:])
		p += len(x)
		// skip ")" and whitespace
		for p < len(text) && (text[p] == ')' || text[p] == ' ') {
			if text[p] == ')' {
				p++
				break
			}
			p++
		}
		t := firstSExpr(strings.TrimLeft(text[p:], " "))
		idx = p
		if t == "" || seen[t] || strings.Contains(t, "!q") || strings.Contains(t, "k!") || strings.Contains(t, "x!") || strings.Contains(t, "wf!") || strings.Contains(t, "r!") || strings.Contains(t, "i!") {
			continue
		}
		seen[t] = true
		out = append(out, t)
	}
	return out
}
