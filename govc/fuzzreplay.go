package main

import (
	"bytes"
	"context"
	"encoding/json"
	"fmt"
	"go/ast"
	"go/token"
	"go/types"
	"os"
	"os/exec"
	"path/filepath"
	"sort"
	"strconv"
	"strings"
	"time"
)

// Randomised counterexample search ("replay by search"): when an obligation fails and the solver's model does not
// replay, the real function is run on many small, type-directed random inputs (built by reflection, including
// unexported fields) and the failed clause is evaluated in Go. A hit is a genuine failing input on the real code.
// This never establishes a property - it only turns "obligation stopped proving" into a demonstrated violation.

const fuzzHelpers = `
var govcPool = []string{"", "a", "b", "e", "p", "d", "x", "sub", "id1", "id2"}
var govcInts = []int64{-1, 0, 1, 2, 3, 5}

func govcInitPools(strs []string, ints []int64) {
	h := strings.Repeat("a", 64)
	govcPool = append(govcPool, h, strings.Repeat("b", 64), h[:63], h+"a", strings.Repeat("A", 64), h[:63]+"g", strings.Repeat("c", 128))
	govcPool = append(govcPool, strs...)
	for _, n := range ints {
		govcInts = append(govcInts, n-1, n, n+1)
	}
}

var govcIfaceTypes = map[string][]reflect.Type{}
var govcRecent []string

func govcGen(v reflect.Value, r *rand.Rand, depth int) {
	if !v.CanSet() {
		if !v.CanAddr() {
			return
		}
		v = reflect.NewAt(v.Type(), unsafe.Pointer(v.UnsafeAddr())).Elem()
	}
	switch v.Kind() {
	case reflect.Bool:
		v.SetBool(r.Intn(4) != 0)
	case reflect.Int, reflect.Int8, reflect.Int16, reflect.Int32, reflect.Int64:
		n := govcInts[r.Intn(len(govcInts))]
		if r.Intn(12) == 0 {
			n = r.Int63n(70000) - 100
		}
		v.SetInt(n)
		if v.Int() != n {
			v.SetInt(n % 100)
		}
	case reflect.Uint, reflect.Uint8, reflect.Uint16, reflect.Uint32, reflect.Uint64, reflect.Uintptr:
		n := govcInts[r.Intn(len(govcInts))]
		if n < 0 {
			n = -n
		}
		if v.Kind() == reflect.Uint8 && r.Intn(2) == 0 {
			n = int64(r.Intn(256))
		}
		v.SetUint(uint64(n))
	case reflect.Float32, reflect.Float64:
		v.SetFloat(float64(govcInts[r.Intn(len(govcInts))]))
	case reflect.String:
		// reuse strings already used in this input with high probability, so that ids / names / values collide
		if len(govcRecent) > 0 && r.Intn(10) < 6 {
			v.SetString(govcRecent[r.Intn(len(govcRecent))])
			return
		}
		sv := govcPool[r.Intn(len(govcPool))]
		govcRecent = append(govcRecent, sv)
		v.SetString(sv)
	case reflect.Slice:
		if depth > 5 || r.Intn(6) == 0 {
			v.Set(reflect.Zero(v.Type()))
			return
		}
		n := r.Intn(4)
		s := reflect.MakeSlice(v.Type(), n, n)
		for i := 0; i < n; i++ {
			govcGen(s.Index(i), r, depth+1)
		}
		v.Set(s)
	case reflect.Array:
		for i := 0; i < v.Len(); i++ {
			govcGen(v.Index(i), r, depth+1)
		}
	case reflect.Map:
		if depth > 5 || (depth > 0 && r.Intn(10) < 4) || r.Intn(8) == 0 {
			v.Set(reflect.Zero(v.Type()))
			return
		}
		m := reflect.MakeMap(v.Type())
		n := r.Intn(4)
		for i := 0; i < n; i++ {
			k := reflect.New(v.Type().Key()).Elem()
			govcGen(k, r, depth+1)
			e := reflect.New(v.Type().Elem()).Elem()
			govcGen(e, r, depth+1)
			func() {
				defer func() { recover() }() // unhashable interface keys
				m.SetMapIndex(k, e)
			}()
		}
		v.Set(m)
	case reflect.Pointer:
		if depth > 6 || (depth > 0 && r.Intn(10) < 4) || r.Intn(10) == 0 {
			v.Set(reflect.Zero(v.Type()))
			return
		}
		p := reflect.New(v.Type().Elem())
		govcGen(p.Elem(), r, depth+1)
		v.Set(p)
	case reflect.Struct:
		if v.Type().PkgPath() == "sync" || v.Type().PkgPath() == "time" {
			return
		}
		for i := 0; i < v.NumField(); i++ {
			govcGen(v.Field(i), r, depth+1)
		}
	case reflect.Interface:
		cands := govcIfaceTypes[v.Type().String()]
		if len(cands) == 0 || r.Intn(10) == 0 {
			if v.Type().NumMethod() == 0 && r.Intn(2) == 0 {
				v.Set(reflect.ValueOf(govcPool[r.Intn(len(govcPool))]))
			} else {
				v.Set(reflect.Zero(v.Type()))
			}
			return
		}
		t := cands[r.Intn(len(cands))]
		x := reflect.New(t).Elem()
		govcGen(x, r, depth+1)
		v.Set(x)
	case reflect.Chan:
		if v.Type().ChanDir() == reflect.BothDir && r.Intn(3) != 0 {
			v.Set(reflect.MakeChan(v.Type(), 4))
		}
	}
}

func govcCopy(v reflect.Value, seen map[unsafe.Pointer]reflect.Value) reflect.Value {
	switch v.Kind() {
	case reflect.Pointer:
		if v.IsNil() {
			return reflect.Zero(v.Type())
		}
		if c, ok := seen[v.UnsafePointer()]; ok {
			return c
		}
		n := reflect.New(v.Type().Elem())
		seen[v.UnsafePointer()] = n
		govcAssign(n.Elem(), govcCopy(v.Elem(), seen))
		return n
	case reflect.Slice:
		if v.IsNil() {
			return reflect.Zero(v.Type())
		}
		n := reflect.MakeSlice(v.Type(), v.Len(), v.Len())
		for i := 0; i < v.Len(); i++ {
			govcAssign(n.Index(i), govcCopy(v.Index(i), seen))
		}
		return n
	case reflect.Map:
		if v.IsNil() {
			return reflect.Zero(v.Type())
		}
		n := reflect.MakeMap(v.Type())
		it := v.MapRange()
		for it.Next() {
			n.SetMapIndex(govcCopy(it.Key(), seen), govcCopy(it.Value(), seen))
		}
		return n
	case reflect.Struct:
		n := reflect.New(v.Type()).Elem()
		for i := 0; i < v.NumField(); i++ {
			f := v.Field(i)
			if !f.CanInterface() {
				if !f.CanAddr() {
					tmp := reflect.New(v.Type()).Elem()
					tmp.Set(v)
					f = tmp.Field(i)
				}
				f = reflect.NewAt(f.Type(), unsafe.Pointer(f.UnsafeAddr())).Elem()
			}
			govcAssign(n.Field(i), govcCopy(f, seen))
		}
		return n
	case reflect.Interface:
		if v.IsNil() {
			return reflect.Zero(v.Type())
		}
		c := govcCopy(v.Elem(), seen)
		n := reflect.New(v.Type()).Elem()
		n.Set(c)
		return n
	}
	return v
}

func govcAssign(dst, src reflect.Value) {
	if !dst.CanSet() {
		dst = reflect.NewAt(dst.Type(), unsafe.Pointer(dst.UnsafeAddr())).Elem()
	}
	dst.Set(src)
}

func govcClone[T any](x T) T {
	v := reflect.ValueOf(&x).Elem()
	c := govcCopy(v, map[unsafe.Pointer]reflect.Value{})
	var out T
	reflect.ValueOf(&out).Elem().Set(c)
	return out
}
`

// fuzzReplay builds and runs the randomised search test for a failed post/safety obligation.
func (p *Prog) fuzzReplay(o *Obligation, rep *ReplayRecord, repo, dir string, seed int) (bool, string) {
	vc := o.vc
	if vc == nil || vc.fi == nil || vc.fi.Decl == nil {
		return false, ""
	}
	fi := vc.fi
	sig := fi.Sig
	if sig.TypeParams().Len() > 0 || sig.RecvTypeParams().Len() > 0 {
		return false, "generic function"
	}
	isSafety := strings.HasPrefix(o.Kind, "safe-")
	if o.Kind != "post" && !isSafety {
		return false, ""
	}
	imports := map[string]bool{}
	pkg := fi.Pkg.Types
	typeStr := func(t types.Type) string {
		return types.TypeString(t, func(q *types.Package) string {
			if q == pkg {
				return ""
			}
			imports[q.Path()] = true
			return q.Name()
		})
	}
	rnd := &goRender{p: p, vc: vc, funcs: map[string]string{}, oldSuffix: "_old"}
	clause := "true"
	if o.Kind == "post" {
		ex, err := parseSpecExpr(o.Text)
		if err != nil {
			return false, "clause not parsable"
		}
		clause = rnd.expr(ex)
		if rnd.fail != "" {
			return false, "clause not renderable in Go: " + rnd.fail
		}
	}
	var reqGo []string
	for _, rq := range vc.spec.Requires {
		g := rnd.expr(rq.Expr)
		if rnd.fail != "" {
			return false, "precondition not renderable in Go: " + rnd.fail
		}
		reqGo = append(reqGo, g)
	}
	// constants mined from the function and its contract
	var strs []string
	var ints []string
	seenS, seenI := map[string]bool{}, map[string]bool{}
	mine := func(n ast.Node) {
		ast.Inspect(n, func(nd ast.Node) bool {
			if bl, ok := nd.(*ast.BasicLit); ok {
				switch bl.Kind {
				case token.STRING:
					if !seenS[bl.Value] && len(bl.Value) < 80 {
						seenS[bl.Value] = true
						strs = append(strs, bl.Value)
					}
				case token.INT:
					if _, err := strconv.ParseInt(bl.Value, 0, 64); err == nil && !seenI[bl.Value] {
						seenI[bl.Value] = true
						ints = append(ints, bl.Value)
					}
				}
			}
			return true
		})
	}
	mine(fi.Decl)
	for _, c := range append(append([]*Clause{}, vc.spec.Requires...), vc.spec.Ensures...) {
		mine(c.Expr)
	}
	sort.Strings(strs)
	sort.Strings(ints)
	// interface implementations known to the engine
	var ifaceInit []string
	ifSeen := map[string]bool{}
	for _, it := range []string{"ClientMsg", "ServerMsg"} {
		if obj := pkgScopeLookup(p, it); obj != nil {
			if iface, ok := obj.Type().Underlying().(*types.Interface); ok {
				var impls []string
				for _, tt := range p.u.tagTypes {
					if types.Implements(tt, iface) && !ifSeen[it+typeStr(tt)] {
						ifSeen[it+typeStr(tt)] = true
						impls = append(impls, fmt.Sprintf("reflect.TypeOf((%s)(nil))", typeStr(tt)))
					}
				}
				if len(impls) > 0 {
					var dummy types.Type = obj.Type()
					ifaceInit = append(ifaceInit, fmt.Sprintf("govcIfaceTypes[reflect.TypeOf((*%s)(nil)).Elem().String()] = []reflect.Type{%s}", typeStr(dummy), strings.Join(impls, ", ")))
				}
			}
		}
	}
	names := p.paramNames(vc.spec, sig)
	var src strings.Builder
	var body strings.Builder
	for i, in := range vc.inputs {
		_ = i
		body.WriteString(fmt.Sprintf("\t\tvar %s %s\n\t\tgovcGen(reflect.ValueOf(&%s).Elem(), rng, 0)\n\t\t_ = %s\n", in.Name, typeStr(in.Term.T), in.Name, in.Name))
	}
	for _, g := range reqGo {
		body.WriteString("\t\tif !govcTry(func() bool { return " + g + " }) {\n\t\t\tcontinue\n\t\t}\n")
	}
	body.WriteString("\t\ttried++\n")
	for _, in := range vc.inputs {
		body.WriteString(fmt.Sprintf("\t\t%s_old := govcClone(%s)\n\t\t_ = %s_old\n", in.Name, in.Name, in.Name))
	}
	callee := fi.Decl.Name.Name
	idx := 0
	if sig.Recv() != nil {
		callee = names[0] + "." + callee
		idx = 1
	}
	var cargs []string
	for i := idx; i < len(names); i++ {
		a := names[i]
		if sig.Variadic() && i == len(names)-1 {
			a += "..."
		}
		cargs = append(cargs, a)
	}
	var resNames []string
	for i := range vc.results {
		n := vc.resultNames[i]
		if strings.HasPrefix(n, "result") && len(vc.results) == 1 {
			n = "result"
		}
		resNames = append(resNames, n)
	}
	body.WriteString("\t\twitness := fmt.Sprintf(\"" + strings.Repeat("%s=%#v; ", len(vc.inputs)) + "\"")
	for _, in := range vc.inputs {
		body.WriteString(fmt.Sprintf(", %q, govcShow(%s_old)", in.Name, in.Name))
	}
	body.WriteString(")\n")
	body.WriteString("\t\tpanicked := false\n\t\tviolated := false\n\t\tfunc() {\n\t\t\tdefer func() {\n\t\t\t\tif r := recover(); r != nil {\n\t\t\t\t\tpanicked = true\n\t\t\t\t}\n\t\t\t}()\n")
	if len(resNames) > 0 {
		body.WriteString("\t\t\t" + strings.Join(resNames, ", ") + " := " + callee + "(" + strings.Join(cargs, ", ") + ")\n")
		for _, n := range resNames {
			body.WriteString("\t\t\t_ = " + n + "\n")
		}
		if len(resNames) == 1 && resNames[0] != "result" {
			body.WriteString("\t\t\tresult := " + resNames[0] + "\n\t\t\t_ = result\n")
		}
	} else {
		body.WriteString("\t\t\t" + callee + "(" + strings.Join(cargs, ", ") + ")\n")
	}
	if o.Kind == "post" {
		body.WriteString("\t\t\tif !(" + clause + ") {\n\t\t\t\tviolated = true\n\t\t\t}\n")
	}
	body.WriteString("\t\t}()\n")
	if isSafety {
		body.WriteString("\t\tif panicked {\n\t\t\tfmt.Printf(\"GOVC-REPRODUCED panic on input: %s\\n\", witness)\n\t\t\tt.Fatalf(\"panic\")\n\t\t}\n")
	} else {
		body.WriteString("\t\tif violated {\n\t\t\tfmt.Printf(\"GOVC-REPRODUCED clause violated on input: %s\\n\", witness)\n\t\t\tt.Fatalf(\"clause violated\")\n\t\t}\n\t\t_ = panicked\n")
	}
	src.WriteString("package " + pkg.Name() + "\n\nimport (\n\t\"fmt\"\n\t\"math/rand\"\n\t\"reflect\"\n\t\"strings\"\n\t\"testing\"\n\t\"time\"\n\t\"unsafe\"\n")
	for ip := range imports {
		switch ip {
		case "fmt", "math/rand", "reflect", "strings", "testing", "time", "unsafe":
			continue
		}
		src.WriteString("\t" + strconv.Quote(ip) + "\n")
	}
	src.WriteString(")\n\nvar _ = fmt.Sprint\nvar _ = strings.Repeat\nvar _ = time.Now\n\n" + replayHelpers + fuzzHelpers)
	src.WriteString("\nfunc govcTry(f func() bool) (ok bool) {\n\tdefer func() {\n\t\tif recover() != nil {\n\t\t\tok = false\n\t\t}\n\t}()\n\treturn f()\n}\n\nfunc govcShow(x any) string {\n\tb := fmt.Sprintf(\"%+v\", x)\n\tif len(b) > 600 {\n\t\tb = b[:600]\n\t}\n\treturn b\n}\n\n")
	for _, n := range rnd.order {
		src.WriteString(rnd.funcs[n] + "\n\n")
	}
	src.WriteString("func TestGovcFuzzReplay(t *testing.T) {\n")
	src.WriteString(fmt.Sprintf("\tgovcInitPools([]string{%s}, []int64{%s})\n", strings.Join(strs, ", "), strings.Join(ints, ", ")))
	for _, l := range ifaceInit {
		src.WriteString("\t" + l + "\n")
	}
	src.WriteString(fmt.Sprintf("\trng := rand.New(rand.NewSource(%d))\n\tdeadline := time.Now().Add(8 * time.Second)\n\ttried := 0\n\tfor iter := 0; iter < 400000 && time.Now().Before(deadline); iter++ {\n\t\tgovcBufCache = map[any][]any{}\n", seed+1))
	src.WriteString(body.String())
	src.WriteString("\t}\n\tfmt.Printf(\"GOVC-SEARCHED %d inputs satisfying the preconditions\\n\", tried)\n}\n")
	os.MkdirAll(dir, 0o755)
	testFile := filepath.Join(dir, sanitize(o.Name)+"_fuzz_test.go")
	os.WriteFile(testFile, []byte(src.String()), 0o644)
	pkgDir := filepath.Dir(p.fset.Position(fi.Decl.Pos()).Filename)
	target := filepath.Join(pkgDir, "zz_govc_fuzz_test.go")
	ovb, _ := json.Marshal(map[string]any{"Replace": map[string]string{target: testFile}})
	ovFile := filepath.Join(dir, sanitize(o.Name)+"_fuzz_overlay.json")
	os.WriteFile(ovFile, ovb, 0o644)
	ctx, cancel := context.WithTimeout(context.Background(), 240*time.Second)
	defer cancel()
	cmd := exec.CommandContext(ctx, "go", "test", "-v", "-overlay", ovFile, "-vet=off", "-count=1", "-timeout", "60s", "-run", "^TestGovcFuzzReplay$", ".")
	cmd.Dir = pkgDir
	cmd.Env = append(os.Environ(), "GOFLAGS=-mod=mod", "GOPROXY=off", "GOSUMDB=off", "GOTOOLCHAIN=local")
	var buf bytes.Buffer
	cmd.Stdout, cmd.Stderr = &buf, &buf
	_ = cmd.Run()
	out := buf.String()
	if strings.Contains(out, "GOVC-REPRODUCED") {
		rep.ReplayCmd = fmt.Sprintf("cd %s && go test -v -overlay %s -vet=off -count=1 -timeout 60s -run '^TestGovcFuzzReplay$' .", pkgDir, ovFile)
		rep.ReplayTest = testFile
		rep.ReplayOut = truncate(out, 3000)
		for _, l := range strings.Split(out, "\n") {
			if strings.HasPrefix(l, "GOVC-REPRODUCED") {
				rep.Witness = map[string]string{"input": truncate(l, 1500)}
			}
		}
		return true, "failing input found by type-directed random search on the real code (seeded, deterministic)"
	}
	if i := strings.Index(out, "GOVC-SEARCHED"); i >= 0 {
		return false, "random search: " + strings.TrimSpace(strings.SplitN(out[i:], "\n", 2)[0]) + ", none violates the clause"
	}
	return false, "random search did not run: " + truncate(out, 400)
}

func pkgScopeLookup(p *Prog, name string) types.Object {
	for _, pk := range p.sortedPkgs() {
		if o := pk.Types.Scope().Lookup(name); o != nil {
			return o
		}
	}
	return nil
}
