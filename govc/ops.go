package main

import (
	"regexp"
	"fmt"
	"go/constant"
	"go/token"
	"go/types"
	"math/big"
	"strconv"
	"strings"
)

func (vc *VC) mk(s string, t types.Type) Term {
	return Term{S: s, T: t, Sort: vc.u.SortOf(t)}
}

func boolTerm(s string) Term { return Term{S: s, T: types.Typ[types.Bool], Sort: "Bool"} }
func intTerm(s string) Term  { return Term{S: s, T: types.Typ[types.Int], Sort: "Int"} }

func bigLit(v *big.Int) string {
	if v.Sign() < 0 {
		return "(- " + new(big.Int).Neg(v).String() + ")"
	}
	return v.String()
}

// constTerm converts a go/constant value of Go type t.
func (vc *VC) constTerm(v constant.Value, t types.Type) Term {
	if t == nil {
		t = types.Typ[types.Int]
	}
	if b, ok := t.(*types.Basic); ok && b.Info()&types.IsUntyped != 0 {
		t = types.Default(t)
	}
	switch v.Kind() {
	case constant.Bool:
		if constant.BoolVal(v) {
			return vc.mk("true", t)
		}
		return vc.mk("false", t)
	case constant.String:
		return vc.mk(vc.u.StrLit(constant.StringVal(v)), t)
	case constant.Int:
		bi, ok := new(big.Int).SetString(v.ExactString(), 10)
		if !ok {
			panic(unsupported("constant " + v.ExactString()))
		}
		if isInterface(t) {
			t = types.Typ[types.Int]
		}
		return vc.mk(bigLit(bi), t)
	case constant.Float:
		// only integral floats are supported
		if iv := constant.ToInt(v); iv.Kind() == constant.Int {
			bi, _ := new(big.Int).SetString(iv.ExactString(), 10)
			return vc.mk(bigLit(bi), t)
		}
	}
	panic(unsupported("constant " + v.String()))
}

// selectField: x.f where x is a struct value or pointer to struct (st needed for heap).
func (vc *VC) selectField(st *State, x Term, name string) (Term, bool) {
	t := x.T
	if p, ok := under(t).(*types.Pointer); ok {
		et := vc.ts.apply(p.Elem())
		stt, ok := under(et).(*types.Struct)
		if !ok {
			return Term{}, false
		}
		for i := 0; i < stt.NumFields(); i++ {
			if stt.Field(i).Name() == name {
				return vc.loadField(st, et, stt.Field(i), x.S), true
			}
		}
		return Term{}, false
	}
	stt, ok := under(t).(*types.Struct)
	if !ok {
		return Term{}, false
	}
	s := vc.u.SortOf(t)
	for i := 0; i < stt.NumFields(); i++ {
		if stt.Field(i).Name() == name {
			ft := vc.ts.apply(stt.Field(i).Type())
			return vc.mk(vc.selFieldS(s, name, i, x.S), ft), true
		}
	}
	return Term{}, false
}

// structUpdate returns x with field idx replaced.
// selFieldS builds (field_i x), simplifying a selection from a constructor term.
func (vc *VC) selFieldS(structSort, field string, i int, x string) string {
	if pre := "(mk_" + structSort + " "; strings.HasPrefix(x, pre) {
		if args := splitSExprArgs(x[len(pre) : len(x)-1]); i < len(args) {
			return args[i]
		}
	}
	return "(" + vc.u.fieldSel(structSort, field, i) + " " + x + ")"
}

func (vc *VC) structUpdate(x Term, idx int, v Term) Term {
	stt := under(x.T).(*types.Struct)
	s := vc.u.SortOf(x.T)
	parts := make([]string, stt.NumFields())
	for i := 0; i < stt.NumFields(); i++ {
		if i == idx {
			parts[i] = v.S
		} else {
			parts[i] = vc.selFieldS(s, stt.Field(i).Name(), i, x.S)
		}
	}
	return vc.mk("(mk_"+s+" "+strings.Join(parts, " ")+")", x.T)
}

func (vc *VC) sliceLen(x Term) string { return "(len_" + x.Sort + " " + x.S + ")" }
func (vc *VC) sliceArr(x Term) string { return "(arr_" + x.Sort + " " + x.S + ")" }
func (vc *VC) sliceNN(x Term) string  { return "(nn_" + x.Sort + " " + x.S + ")" }

func (vc *VC) mkSlice(t types.Type, arr, ln, nn string) Term {
	s := vc.u.SortOf(t)
	return Term{S: fmt.Sprintf("(mk_%s %s %s %s)", s, arr, ln, nn), T: t, Sort: s}
}

func elemType(t types.Type) types.Type {
	switch tt := under(t).(type) {
	case *types.Slice:
		return tt.Elem()
	case *types.Array:
		return tt.Elem()
	case *types.Pointer:
		return elemType(tt.Elem())
	case *types.Map:
		return tt.Elem()
	case *types.Chan:
		return tt.Elem()
	}
	return nil
}

// lenOf returns len(x) for strings, slices, arrays, maps, chans.
var reBoundVar = regexp.MustCompile(`![qw][0-9]+`)

func (vc *VC) lenOf(st *State, x Term) Term {
	switch tt := under(x.T).(type) {
	case *types.Basic:
		if isString(x.T) {
			return intTerm("(s.len " + x.S + ")")
		}
	case *types.Slice:
		return intTerm(vc.sliceLen(x))
	case *types.Array:
		return intTerm(fmt.Sprint(tt.Len()))
	case *types.Map:
		mi := vc.mapInfo(x.T)
		if !reBoundVar.MatchString(x.S) {
			// (facts about a term under a binder cannot be added to the state)
			st.assume(vc.cardFacts(st, mi, x.S))
		}
		return intTerm(vc.mapCard(st, mi, x.S))
	case *types.Chan:
		ci := vc.chanInfo(x.T)
		b := vc.chanBuf(st, ci, x.S)
		return intTerm(vc.sliceLen(b))
	case *types.Pointer:
		if at, ok := under(tt.Elem()).(*types.Array); ok {
			return intTerm(fmt.Sprint(at.Len()))
		}
	}
	panic(unsupported("len of " + x.T.String()))
}

// indexValue: x[i] (no bounds obligations here).
func (vc *VC) indexValue(st *State, x Term, i Term) Term {
	switch tt := under(x.T).(type) {
	case *types.Basic:
		if isString(x.T) {
			return vc.mk("(s.at "+x.S+" "+i.S+")", types.Typ[types.Uint8])
		}
	case *types.Slice:
		et := vc.ts.apply(tt.Elem())
		return vc.mk(sel(vc.sliceArr(x), i.S), et)
	case *types.Array:
		et := vc.ts.apply(tt.Elem())
		if tt.Len() > 8 {
			return vc.mk(sel(x.S, i.S), et)
		}
		// ite chain over constant indices
		s := x.Sort
		res := fmt.Sprintf("(e%d_%s %s)", tt.Len()-1, s, x.S)
		for k := tt.Len() - 2; k >= 0; k-- {
			res = ite(eq(i.S, fmt.Sprint(k)), fmt.Sprintf("(e%d_%s %s)", k, s, x.S), res)
		}
		return vc.mk(res, et)
	case *types.Map:
		mi := vc.mapInfo(x.T)
		return vc.mapLookup(st, mi, x.S, i.S)
	}
	if x.T == nil && x.KS != "" { // ghost array
		return Term{S: sel(x.S, i.S), T: x.VT, Sort: x.VS}
	}
	panic(unsupported("index of " + fmt.Sprint(x.T)))
}

func (vc *VC) arrayUpdate(x Term, idx int64, v Term) Term {
	at := under(x.T).(*types.Array)
	if at.Len() > 8 {
		return vc.mk(store(x.S, fmt.Sprint(idx), v.S), x.T)
	}
	parts := make([]string, at.Len())
	for k := int64(0); k < at.Len(); k++ {
		if k == idx {
			parts[k] = v.S
		} else {
			parts[k] = fmt.Sprintf("(e%d_%s %s)", k, x.Sort, x.S)
		}
	}
	return vc.mk("(mk_"+x.Sort+" "+strings.Join(parts, " ")+")", x.T)
}

// box converts a concrete value to an interface value.
func (vc *VC) box(x Term, to types.Type) Term {
	if isInterface(x.T) {
		return Term{S: x.S, T: to, Sort: "Iface"}
	}
	if isUntypedNil(x.T) {
		return vc.u.ZeroT(to)
	}
	tag := vc.u.Tag(x.T)
	var pay string
	switch x.Sort {
	case "Int":
		pay = x.S
	case "Bool":
		pay = "(ite " + x.S + " 1 0)"
	default:
		b, _ := vc.u.boxFuns(x.Sort)
		pay = "(" + b + " " + x.S + ")"
	}
	return Term{S: fmt.Sprintf("(mk_Iface %d %s)", tag, pay), T: to, Sort: "Iface"}
}

func (u *Universe) ZeroT(t types.Type) Term { return u.Zero(t) }

// unbox extracts the payload of interface value x as concrete type t (no check).
func (vc *VC) unbox(x Term, t types.Type) Term {
	s := vc.u.SortOf(t)
	switch s {
	case "Int":
		return vc.mk("(ipay "+x.S+")", t)
	case "Bool":
		return vc.mk("(= (ipay "+x.S+") 1)", t)
	case "Iface":
		return Term{S: x.S, T: t, Sort: "Iface"}
	}
	_, ub := vc.u.boxFuns(s)
	return vc.mk("("+ub+" (ipay "+x.S+"))", t)
}

// hasDynType: formula "x's dynamic type is t" (t concrete) or "x implements interface t" (approximated by non-nil).
func (vc *VC) hasDynType(x Term, t types.Type) string {
	if isInterface(t) {
		// assertion to an interface type: succeeds iff non-nil and the dynamic type implements it.
		// Enumerate known tags implementing it.
		it, _ := under(t).(*types.Interface)
		var alts []string
		if it != nil {
			for _, tt := range vc.u.tagTypes {
				if types.Implements(tt, it) {
					alts = append(alts, eq("(itag "+x.S+")", fmt.Sprint(vc.u.Tag(tt))))
				}
			}
			if it.NumMethods() == 0 {
				return not(eq("(itag "+x.S+")", "0"))
			}
		}
		return or(alts...)
	}
	return eq("(itag "+x.S+")", fmt.Sprint(vc.u.Tag(t)))
}

// coerce converts x to target type (boxing into interfaces, nil to zero values).
func (vc *VC) coerce(x Term, to types.Type) Term {
	if to == nil {
		return x
	}
	if isUntypedNil(x.T) {
		return vc.u.Zero(to)
	}
	if isInterface(to) && !isInterface(x.T) {
		return vc.box(x, to)
	}
	if isInterface(to) {
		return Term{S: x.S, T: to, Sort: "Iface"}
	}
	return Term{S: x.S, T: to, Sort: x.Sort, KT: x.KT, VT: x.VT, KS: x.KS, VS: x.VS}
}

// isNil formula
func (vc *VC) isNil(x Term) string {
	switch under(x.T).(type) {
	case *types.Slice:
		return not(vc.sliceNN(x))
	case *types.Interface:
		return eq("(itag "+x.S+")", "0")
	}
	if _, ok := x.T.(*types.TypeParam); ok {
		return eq("(itag "+x.S+")", "0")
	}
	if x.Sort == "Iface" {
		return eq("(itag "+x.S+")", "0")
	}
	return eq(x.S, "0")
}

// equality of two values of the same Go type
func (vc *VC) equal(a, b Term) string {
	if isUntypedNil(a.T) {
		return vc.isNil(b)
	}
	if isUntypedNil(b.T) {
		return vc.isNil(a)
	}
	if a.Sort == "Iface" && b.Sort != "Iface" {
		b = vc.box(b, a.T)
	}
	if b.Sort == "Iface" && a.Sort != "Iface" {
		a = vc.box(a, b.T)
	}
	return eq(a.S, b.S)
}

func (vc *VC) binArith(op token.Token, a, b Term, t types.Type) (Term, bool) {
	if isString(t) && op == token.ADD {
		return vc.mk("(s.cat "+a.S+" "+b.S+")", t), true
	}
	var s string
	switch op {
	case token.ADD:
		s = "(+ " + a.S + " " + b.S + ")"
	case token.SUB:
		s = "(- " + a.S + " " + b.S + ")"
	case token.MUL:
		s = "(* " + a.S + " " + b.S + ")"
	case token.QUO:
		// Go truncates toward zero
		s = fmt.Sprintf("(ite (>= %s 0) (div %s %s) (- (div (- %s) %s)))", a.S, a.S, b.S, a.S, b.S)
	case token.REM:
		s = fmt.Sprintf("(ite (>= %s 0) (mod %s %s) (- (mod (- %s) %s)))", a.S, a.S, b.S, a.S, b.S)
	case token.SHL:
		if k, ok := smallLit(b.S); ok {
			// exact: multiplication by 2^k (the caller wraps to the operand type)
			s = fmt.Sprintf("(* %s %s)", a.S, new(big.Int).Lsh(big.NewInt(1), uint(k)).String())
			return vc.convertInt(Term{S: s, T: types.Typ[types.UntypedInt], Sort: "Int"}, t), true
		}
		vc.u.declFun("bit.shl", "(Int Int) Int")
		s = "(bit.shl " + a.S + " " + b.S + ")"
	case token.SHR:
		if k, ok := smallLit(b.S); ok {
			// exact: arithmetic shift = floor division by 2^k
			s = fmt.Sprintf("(div %s %s)", a.S, new(big.Int).Lsh(big.NewInt(1), uint(k)).String())
			return vc.mk(s, t), true
		}
		vc.u.declFun("bit.shr", "(Int Int) Int")
		s = "(bit.shr " + a.S + " " + b.S + ")"
	case token.OR:
		vc.u.declFun("bit.or", "(Int Int) Int")
		s = "(bit.or " + a.S + " " + b.S + ")"
	case token.AND:
		if m, ok := smallLit(b.S); ok && m >= 0 && (m+1)&m == 0 {
			// exact: x & (2^k - 1) = x mod 2^k (two's complement)
			s = fmt.Sprintf("(mod %s %d)", a.S, m+1)
			return vc.mk(s, t), true
		}
		vc.u.declFun("bit.and", "(Int Int) Int")
		s = "(bit.and " + a.S + " " + b.S + ")"
	case token.XOR:
		vc.u.declFun("bit.xor", "(Int Int) Int")
		s = "(bit.xor " + a.S + " " + b.S + ")"
	default:
		return Term{}, false
	}
	return vc.mk(s, t), true
}

func (vc *VC) compare(op token.Token, a, b Term) (string, bool) {
	if isString(a.T) && isString(b.T) {
		switch op {
		case token.LSS:
			return "(s.lt " + a.S + " " + b.S + ")", true
		case token.GTR:
			return "(s.lt " + b.S + " " + a.S + ")", true
		case token.LEQ:
			return not("(s.lt " + b.S + " " + a.S + ")"), true
		case token.GEQ:
			return not("(s.lt " + a.S + " " + b.S + ")"), true
		}
	}
	switch op {
	case token.EQL:
		return vc.equal(a, b), true
	case token.NEQ:
		return not(vc.equal(a, b)), true
	case token.LSS:
		return "(< " + a.S + " " + b.S + ")", true
	case token.LEQ:
		return "(<= " + a.S + " " + b.S + ")", true
	case token.GTR:
		return "(> " + a.S + " " + b.S + ")", true
	case token.GEQ:
		return "(>= " + a.S + " " + b.S + ")", true
	}
	return "", false
}

// convertInt models integer conversions exactly.
func (vc *VC) convertInt(x Term, to types.Type) Term {
	lo, hi, ok := intRange(to)
	if !ok {
		return vc.mk(x.S, to)
	}
	flo, fhi, fok := intRange(x.T)
	if fok {
		// widening conversions are the identity
		l1, _ := new(big.Int).SetString(strings.Trim(strings.ReplaceAll(strings.ReplaceAll(flo, "(- ", "-"), ")", ""), " "), 10)
		h1, _ := new(big.Int).SetString(fhi, 10)
		l2, _ := new(big.Int).SetString(strings.Trim(strings.ReplaceAll(strings.ReplaceAll(lo, "(- ", "-"), ")", ""), " "), 10)
		h2, _ := new(big.Int).SetString(hi, 10)
		if l1 != nil && h1 != nil && l2 != nil && h2 != nil && l1.Cmp(l2) >= 0 && h1.Cmp(h2) <= 0 {
			return vc.mk(x.S, to)
		}
	}
	// wraparound: ((x - lo) mod 2^n) + lo
	h2, _ := new(big.Int).SetString(hi, 10)
	l2, _ := new(big.Int).SetString(strings.Trim(strings.ReplaceAll(strings.ReplaceAll(lo, "(- ", "-"), ")", ""), " "), 10)
	size := new(big.Int).Sub(h2, l2)
	size.Add(size, big.NewInt(1))
	return vc.mk(fmt.Sprintf("(+ (mod (- %s %s) %s) %s)", x.S, lo, size.String(), lo), to)
}

func smallLit(s string) (int64, bool) {
	n, err := strconv.ParseInt(s, 10, 64)
	if err != nil || n < 0 || n > 62 && false {
		return 0, false
	}
	return n, true
}
