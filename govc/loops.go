package main

import (
	"go/token"
	"fmt"
	"go/ast"
	"go/types"
	"sort"
	"strings"
)

// numberLoops assigns ordinals (1-based, source order) to the loops of a function body.
func numberLoops(body *ast.BlockStmt) map[ast.Node]int {
	m := map[ast.Node]int{}
	n := 0
	ast.Inspect(body, func(nd ast.Node) bool {
		switch s := nd.(type) {
		case *ast.ForStmt:
			n++
			m[s] = n
		case *ast.RangeStmt:
			n++
			m[s] = n
		case *ast.CallExpr:
			// x.Loop(func(k, v) {...}): a call of a for-each method with a function literal counts as a loop (the
			// callee's contract must say `opt foreach=<map field>`; see execForeach)
			if isForeachCall(s) {
				n++
				m[s] = n
			}
		}
		return true
	})
	return m
}

func isForeachCall(c *ast.CallExpr) bool {
	se, ok := c.Fun.(*ast.SelectorExpr)
	if !ok || se.Sel.Name != "Loop" || len(c.Args) != 1 {
		return false
	}
	_, ok = c.Args[0].(*ast.FuncLit)
	return ok
}

type modSet struct {
	vars  map[types.Object]bool
	heaps map[string]bool
	ghost map[string]bool
	alloc bool
}

// dryRun executes f on a clone of st with obligations suppressed and reports what changed.
func (vc *VC) dryRun(st *State, label string, f func(s *State) []*State) modSet {
	nObl := len(vc.obls)
	savedCounters := map[string]int{}
	for k, v := range vc.counters {
		savedCounters[k] = v
	}
	savedNotes := len(vc.notes)
	savedTargets := vc.targets
	vc.dry++
	base := st.clone()
	// give every heap known so far an explicit entry so that diffs are visible
	tg := &target{isLoop: true, label: label}
	vc.targets = append(append([]*target(nil), savedTargets...), tg)
	outs := f(base.clone())
	outs = append(outs, tg.conts...)
	outs = append(outs, tg.breaks...)
	// exits via return inside the loop body also count
	vc.dry--
	ms := modSet{vars: map[types.Object]bool{}, heaps: map[string]bool{}, ghost: map[string]bool{}}
	collect := func(o *State) {
		for obj, v := range o.vars {
			if bv, ok := base.vars[obj]; ok && bv.S != v.S {
				ms.vars[obj] = true
			}
		}
		for h, t := range o.heap {
			bt, ok := base.heap[h]
			if !ok {
				bt, ok = vc.heap0[h]
			}
			if !ok || bt.S != t.S {
				ms.heaps[h] = true
			}
		}
		for g, t := range o.ghost {
			if bt, ok := base.ghost[g]; ok && bt.S != t.S {
				ms.ghost[g] = true
			}
		}
		if o.alloc != base.alloc {
			ms.alloc = true
		}
	}
	for _, o := range outs {
		collect(o)
	}
	for _, o := range vc.dryExits {
		collect(o)
	}
	vc.dryExits = nil
	vc.targets = savedTargets
	vc.obls = vc.obls[:nObl]
	vc.counters = savedCounters
	vc.notes = vc.notes[:savedNotes]
	return ms
}

func (vc *VC) loopSpec(n int) *LoopSpec {
	if ls, ok := vc.spec.Loops[n]; ok {
		vc.usedLoops[n] = true
		return ls
	}
	return &LoopSpec{N: n}
}

// havocFor creates the loop-head state.
func (vc *VC) havocFor(st *State, ms modSet, ls *LoopSpec, entry *State) *State {
	head := st.clone()
	if ms.alloc {
		na := vc.freshSort("alloc", "Int")
		head.assume("(>= " + na.S + " " + st.alloc + ")")
		head.alloc = na.S
	}
	var objs []types.Object
	for o := range ms.vars {
		objs = append(objs, o)
	}
	sort.Slice(objs, func(i, j int) bool { return objs[i].Pos() < objs[j].Pos() })
	for _, o := range objs {
		old := st.vars[o]
		nv := vc.fresh(o.Name(), old.T)
		nv.KT, nv.VT, nv.KS, nv.VS = old.KT, old.VT, old.KS, old.VS
		head.vars[o] = nv
		head.assume(vc.u.WF(nv.S, old.T, head.alloc))
		if _, ok := head.cells[o]; ok && !vc.addrTaken[o] {
			delete(head.cells, o)
		}
	}
	var hs []string
	for h := range ms.heaps {
		hs = append(hs, h)
	}
	sort.Strings(hs)
	var targets map[string][]string
	if ls.HasW {
		env := vc.specEnv(entry, entry)
		targets = vc.evalWriteTargets(env, ls.Writes)
	}
	for _, h := range hs {
		sortName := vc.heapSort[h]
		nh := vc.freshSort(h, sortName)
		cur := vc.heapGet(st, h, sortName, vc.heapElemT[h])
		head.heap[h] = nh
		if f := vc.heapWF(h, nh.S, head.alloc); f != "true" {
			head.assume(f)
		}
		if ls.HasW {
			entryH := vc.heapGet(entry, h, sortName, vc.heapElemT[h])
			_ = cur
			head.assume(frameFact(nh.S, entryH.S, targets[h], entry.alloc))
		}
	}
	return head
}

// frameFact: forall r. r < alloc && r not in targets => new[r] = old[r]
func frameFact(newH, oldH string, targets []string, alloc string) string {
	conds := []string{"(< r!f " + alloc + ")"}
	if ifaceKeyedGhost(newH) {
		// ghost heaps keyed by interface payloads (arbitrary integers): no allocation guard
		conds = nil
	}
	for _, t := range targets {
		conds = append(conds, not(t))
	}
	return fmt.Sprintf("(forall ((r!f Int)) (! (=> %s (= (select %s r!f) (select %s r!f))) :pattern ((select %s r!f))))", and(conds...), newH, oldH, newH)
}

func (vc *VC) specEnv(st, old *State) *SpecEnv {
	vars := map[string]Term{}
	for n, t := range vc.paramTerm {
		vars[n] = t
	}
	// current values of parameters (parameters are mutable): name -> current var
	for n, o := range vc.params {
		if v, ok := st.vars[o]; ok {
			vars[n] = v
		}
		// an inner declaration shadowing the parameter (e.g. `switch msg := msg.(type)`) wins while in scope
		if so := vc.lookupProgramVar(st, n); so != nil && so != o && so.Pos() > o.Pos() {
			vars[n] = st.vars[so]
		}
	}
	return &SpecEnv{vc: vc, st: st, old: old, vars: vars, pkg: vc.pkg, oldVars: vc.paramTerm}
}

func (vc *VC) checkInvs(st *State, ls *LoopSpec, kind string, entry *State, n int, where string) {
	env := vc.specEnv(st, vc.entry)
	env.lentry = entry
	for _, inv := range ls.Invs {
		if !vc.wanted(inv.Props) {
			continue
		}
		g := env.evalBool(inv.Expr)
		props := inv.Props
		o := vc.oblige(st, fmt.Sprintf("%s/loop%d", kind, n), inv.Text, inv.Where, g, props)
		_ = o
		if kind == "inv-entry" && strings.Contains(inv.Text, "lold(") {
			// the invariant, once demanded of the entry state, is a fact about that state: invariants that speak
			// about the entry state through lold() need it at the loop head and after the loop
			st.assume(g)
		}
	}
	if ls.HasW && kind == "inv-preserve" {
		vc.checkFrame(st, entry, ls.Writes, fmt.Sprintf("loop-frame/loop%d", n), where, entry)
	}
}

func (vc *VC) assumeInvs(st *State, ls *LoopSpec, entry *State) {
	env := vc.specEnv(st, vc.entry)
	env.lentry = entry
	for _, inv := range ls.Invs {
		if !vc.wanted(inv.Props) {
			continue
		}
		st.assume(env.evalBool(inv.Expr))
	}
}

// checkFrame: every heap that changed between `from` and st respects the write targets.
func (vc *VC) checkFrame(st, from *State, writes []*Clause, kind, where string, targetState *State) {
	env := vc.specEnv(targetState, targetState)
	targets := vc.evalWriteTargets(env, writes)
	var names []string
	for h := range st.heap {
		names = append(names, h)
	}
	sort.Strings(names)
	for _, h := range names {
		cur := st.heap[h]
		old, ok := from.heap[h]
		if !ok {
			old, ok = vc.heap0[h]
		}
		if !ok || old.S == cur.S || strings.HasPrefix(h, "G$called$") {
			continue
		}
		conds := []string{"(< r!f " + from.alloc + ")", "(< 0 r!f)"} // ref 0 is nil: it owns no contents
		if ifaceKeyedGhost(h) {
			conds = nil
		}
		for _, t := range targets[h] {
			conds = append(conds, not(t))
		}
		goal := fmt.Sprintf("(forall ((r!f Int)) (=> %s (= (select %s r!f) (select %s r!f))))", and(conds...), cur.S, old.S)
		vc.oblige(st, kind, "frame of "+h, where, goal, nil)
	}
}

func (vc *VC) execFor(st *State, x *ast.ForStmt, label string) []*State {
	n := vc.loopOrd[x]
	ls := vc.loopSpec(n)
	if x.Init != nil {
		sts := vc.execStmt(st, x.Init)
		if len(sts) != 1 {
			vc.fail(x, "loop init forked")
		}
		st = sts[0]
	}
	entry := st.clone()
	iter := func(s *State) []*State {
		if x.Cond != nil {
			c := vc.evalExpr(s, x.Cond)
			s.assume(c.S)
		}
		outs := vc.execBlock([]*State{s}, x.Body.List)
		tg := vc.targets[len(vc.targets)-1]
		outs = append(outs, tg.conts...)
		tg.conts = nil
		var res []*State
		for _, o := range outs {
			if x.Post != nil {
				res = append(res, vc.execStmt(o, x.Post)...)
			} else {
				res = append(res, o)
			}
		}
		return res
	}
	if vc.unroll > 0 {
		// counterexample search: exact semantics for up to vc.unroll iterations (deeper executions are dropped)
		return vc.unrollLoop(st, label, func(s *State) string {
			if x.Cond == nil {
				return "true"
			}
			return vc.evalExpr(s, x.Cond).S
		}, func(s *State) []*State {
			outs := vc.execBlock([]*State{s}, x.Body.List)
			tg := vc.targets[len(vc.targets)-1]
			outs = append(outs, tg.conts...)
			tg.conts = nil
			var res []*State
			for _, o := range outs {
				if x.Post != nil {
					res = append(res, vc.execStmt(o, x.Post)...)
				} else {
					res = append(res, o)
				}
			}
			return res
		})
	}
	ms := vc.dryRun(st, label, iter)
	vc.checkInvs(st, ls, "inv-entry", entry, n, vc.pos(x))
	head := vc.havocFor(st, ms, ls, entry)
	vc.assumeInvs(head, ls, entry)
	var exits []*State
	bodySt := head
	if x.Cond != nil {
		exitSt := head.clone()
		c := vc.evalExpr(exitSt, x.Cond)
		exitSt.assume(not(c.S))
		exits = append(exits, exitSt)
	}
	tg := &target{label: label, isLoop: true}
	vc.targets = append(vc.targets, tg)
	outs := iter(bodySt.clone())
	vc.targets = vc.targets[:len(vc.targets)-1]
	for _, o := range outs {
		vc.checkInvs(o, ls, "inv-preserve", entry, n, vc.pos(x))
	}
	exits = append(exits, tg.breaks...)
	vc.coverLoopExit(n, exits, entry, vc.pos(x))
	vc.anchors(exits, fmt.Sprintf("afterloop%d", n), entry)
	return exits
}

// anchors applies `assert @anchor: e` / `assume @anchor: e` clauses to the given states.
func (vc *VC) anchors(sts []*State, anchor string, lentry *State, extra ...map[string]Term) {
	for _, c := range vc.spec.Asserts {
		if c.Name != anchor {
			continue
		}
		if !vc.wanted(c.Props) {
			// a clause of another property: the anchor exists, the clause takes no part in this run
			vc.usedAnchors[anchor] = true
			continue
		}
		if vc.dry > 0 {
			vc.usedAnchors[anchor] = true
			continue
		}
		vc.usedAnchors[anchor] = true
		for _, s := range sts {
			env := vc.specEnv(s, vc.entry)
			env.lentry = lentry
			for _, ex := range extra {
				for k, v := range ex {
					env.vars[k] = v
				}
			}
			g := env.evalBool(c.Expr)
			if c.Kind == "assert" {
				vc.oblige(s, "assert@"+anchor, c.Text, c.Where, g, c.Props)
			} else {
				vc.note("assumed (" + vc.fi.Key + " @" + anchor + "): " + c.Text)
			}
			s.assume(g)
		}
	}
}

func (vc *VC) execRange(st *State, x *ast.RangeStmt, label string) []*State {
	n := vc.loopOrd[x]
	ls := vc.loopSpec(n)
	rng := vc.evalExpr(st, x.X)
	rt := under(rng.T)
	if pt, ok := rt.(*types.Pointer); ok {
		rng = vc.loadDeref(st, vc.ts.apply(pt.Elem()), rng.S)
		rt = under(rng.T)
	}
	if ls.Over != "" {
		// the value of the range expression (evaluated once) under a name usable in invariants
		st.ghost[ls.Over] = rng
	}
	idxName := ls.As
	if idxName == "" {
		idxName = fmt.Sprintf("$idx%d", n)
	}
	visName := ls.Visited
	if visName == "" {
		visName = fmt.Sprintf("$vis%d", n)
	}
	setKV := func(s *State, k, v *Term) {
		if x.Key != nil && k != nil {
			vc.assign(s, x.Key, *k)
		}
		if x.Value != nil && v != nil {
			vc.assign(s, x.Value, *v)
			if id, ok := x.Value.(*ast.Ident); ok && id.Name != "_" {
				if obj := vc.objOf(id); obj != nil {
					s.freshSl[obj] = false
				}
			}
		}
	}
	var curMS modSet // modified set of the loop (known after the dry run)
	msKnown := false
	var pre func(s *State) string    // loop guard in state s
	var bind func(s *State)          // binds key/value at iteration start
	var post func(s *State)          // advance
	var initGhost func(s *State)     // set ghost at entry
	var havocGhost func(head *State) // havoc ghost at head with automatic invariants
	switch tt := rt.(type) {
	case *types.Slice, *types.Array:
		ln := vc.lenOf(st, rng)
		initGhost = func(s *State) { s.ghost[idxName] = intTerm("0") }
		havocGhost = func(h *State) {
			k := vc.freshSort("i", "Int")
			k.T = types.Typ[types.Int]
			h.ghost[idxName] = k
			h.assume(fmt.Sprintf("(and (<= 0 %s) (<= %s %s))", k.S, k.S, ln.S))
		}
		pre = func(s *State) string { return "(< " + s.ghost[idxName].S + " " + ln.S + ")" }
		bind = func(s *State) {
			k := s.ghost[idxName]
			v := vc.indexValue(s, rng, k)
			setKV(s, &k, &v)
		}
		post = func(s *State) {
			k := s.ghost[idxName]
			s.ghost[idxName] = intTerm("(+ " + k.S + " 1)")
		}
	case *types.Basic:
		if isString(rng.T) {
			ln := "(s.len " + rng.S + ")"
			wName := fmt.Sprintf("$w%d", n)
			initGhost = func(s *State) { s.ghost[idxName] = intTerm("0") }
			havocGhost = func(h *State) {
				k := vc.freshSort("i", "Int")
				k.T = types.Typ[types.Int]
				h.ghost[idxName] = k
				h.assume(fmt.Sprintf("(and (<= 0 %s) (<= %s %s))", k.S, k.S, ln))
			}
			pre = func(s *State) string { return "(< " + s.ghost[idxName].S + " " + ln + ")" }
			bind = func(s *State) {
				k := s.ghost[idxName]
				r := vc.fresh("rune", types.Typ[types.Rune])
				w := vc.freshSort("w", "Int")
				b := "(s.at " + rng.S + " " + k.S + ")"
				// assumed UTF-8 decoding contract
				s.assume(fmt.Sprintf("(ite (< %s 128) (and (= %s %s) (= %s 1)) (and (>= %s 128) (<= %s 1114111) (<= 1 %s) (<= %s 4) (<= (+ %s %s) %s)))",
					b, r.S, b, w.S, r.S, r.S, w.S, w.S, k.S, w.S, ln))
				s.ghost[wName] = Term{S: w.S, T: types.Typ[types.Int], Sort: "Int"}
				setKV(s, &k, &r)
			}
			post = func(s *State) {
				k := s.ghost[idxName]
				s.ghost[idxName] = intTerm("(+ " + k.S + " " + s.ghost[wName].S + ")")
			}
			vc.note("assumed: UTF-8 decoding contract of range-over-string (ASCII byte => rune = byte, width 1; else rune >= 0x80, width 1..4)")
		} else if isInteger(rng.T) {
			initGhost = func(s *State) { s.ghost[idxName] = intTerm("0") }
			havocGhost = func(h *State) {
				k := vc.freshSort("i", "Int")
				k.T = types.Typ[types.Int]
				h.ghost[idxName] = k
				h.assume(fmt.Sprintf("(and (<= 0 %s) (or (<= %s %s) (= %s 0)))", k.S, k.S, rng.S, k.S))
			}
			pre = func(s *State) string { return "(< " + s.ghost[idxName].S + " " + rng.S + ")" }
			bind = func(s *State) { k := s.ghost[idxName]; setKV(s, &k, nil) }
			post = func(s *State) {
				k := s.ghost[idxName]
				s.ghost[idxName] = intTerm("(+ " + k.S + " 1)")
			}
		} else {
			vc.fail(x, "range over %v", rng.T)
		}
	case *types.Map:
		mi := vc.mapInfo(rng.T)
		_ = tt
		vsort := "(Array " + mi.ks + " Bool)"
		curName := fmt.Sprintf("$cur%d", n)
		mkVis := func(s string) Term {
			return Term{S: s, Sort: vsort, KT: mi.K, VT: types.Typ[types.Bool], KS: mi.ks, VS: "Bool"}
		}
		// iteration counter (`as n`): a range over a map visits every key at most once, so while the map is not
		// modified inside the loop the number of completed iterations is below its size whenever one more starts
		entryCard := vc.mapCard(st, mi, rng.S)
		mapUnmodified := func() bool { return msKnown && !curMS.heaps[mi.dn] && !curMS.heaps[mi.cn] }
		initGhost = func(s *State) {
			s.ghost[visName] = mkVis("((as const " + vsort + ") false)")
			s.ghost[idxName] = intTerm("0")
		}
		havocGhost = func(h *State) {
			v := vc.freshSort("vis", vsort)
			h.ghost[visName] = mkVis(v.S)
			k := vc.freshSort("n", "Int")
			k.T = types.Typ[types.Int]
			h.ghost[idxName] = k
			h.assume("(<= 0 " + k.S + ")")
			if mapUnmodified() {
				h.assume("(<= " + k.S + " " + entryCard + ")")
			}
		}
		pre = func(s *State) string {
			d := vc.mapDom(s, mi, rng.S)
			return fmt.Sprintf("(exists ((k!r %s)) (and (select %s k!r) (not (select %s k!r))))", mi.ks, d, s.ghost[visName].S)
		}
		bind = func(s *State) {
			k := vc.fresh("key", mi.K)
			d := vc.mapDom(s, mi, rng.S)
			s.assume(fmt.Sprintf("(and (select %s %s) (not (select %s %s)))", d, k.S, s.ghost[visName].S, k.S))
			s.assume(vc.u.WF(k.S, mi.K, s.alloc))
			if mapUnmodified() {
				s.assume("(< " + s.ghost[idxName].S + " " + entryCard + ")")
			}
			s.ghost[curName] = k
			v := vc.mapLookup(s, mi, rng.S, k.S)
			setKV(s, &k, &v)
		}
		post = func(s *State) {
			k := s.ghost[curName]
			s.ghost[visName] = mkVis(store(s.ghost[visName].S, k.S, "true"))
			s.ghost[idxName] = intTerm("(+ " + s.ghost[idxName].S + " 1)")
		}
	default:
		vc.fail(x, "range over %v", rng.T)
	}
	// key/value variables defined by := start at zero
	if x.Tok.String() == ":=" {
		for _, e := range []ast.Expr{x.Key, x.Value} {
			if id, ok := e.(*ast.Ident); ok && id.Name != "_" {
				if obj := vc.info.Defs[id]; obj != nil {
					st.vars[obj] = vc.u.Zero(vc.ts.apply(obj.Type()))
				}
			}
		}
	}
	initGhost(st)
	entry := st.clone()
	iter := func(s *State) []*State {
		bind(s)
		outs := vc.execBlock([]*State{s}, x.Body.List)
		tg := vc.targets[len(vc.targets)-1]
		outs = append(outs, tg.conts...)
		tg.conts = nil
		for _, o := range outs {
			post(o)
		}
		return outs
	}
	if vc.unroll > 0 {
		return vc.unrollLoop(st, label, pre, iter)
	}
	ms := vc.dryRun(st, label, func(s *State) []*State { s.assume(pre(s)); return iter(s) })
	curMS, msKnown = ms, true
	vc.checkInvs(st, ls, "inv-entry", entry, n, vc.pos(x))
	head := vc.havocFor(st, ms, ls, entry)
	havocGhost(head)
	vc.assumeInvs(head, ls, entry)
	exitSt := head.clone()
	exitSt.assume(not(pre(exitSt)))
	tg := &target{label: label, isLoop: true}
	vc.targets = append(vc.targets, tg)
	bodySt := head.clone()
	bodySt.assume(pre(bodySt))
	outs := iter(bodySt)
	vc.targets = vc.targets[:len(vc.targets)-1]
	for _, o := range outs {
		vc.checkInvs(o, ls, "inv-preserve", entry, n, vc.pos(x))
	}
	exits := append([]*State{exitSt}, tg.breaks...)
	vc.coverLoopExit(n, exits, entry, vc.pos(x))
	vc.anchors(exits, fmt.Sprintf("afterloop%d", n), entry)
	return exits
}

// ---------------------------------------------------------------------------------------
// channels in sequential code: buffered channels created locally are filled and closed

func (vc *VC) execSend(st *State, x *ast.SendStmt) {
	if vc.isTokenChan(x.Chan) {
		vc.tokenSend(st, x.Chan, vc.evalExpr(st, x.Value), x)
		return
	}
	ch := vc.evalExpr(st, x.Chan)
	ci := vc.chanInfo(ch.T)
	v := vc.coerce(vc.evalExpr(st, x.Value), ci.E)
	vc.chanAppend(st, ch, ci, v, exprStringNode(x.Chan)+" <- "+exprString(x.Value), vc.pos(x))
}

func (vc *VC) chanAppend(st *State, ch Term, ci chanHeaps, v Term, text, where string) {
	buf := vc.chanBuf(st, ci, ch.S)
	ln := vc.sliceLen(buf)
	// a bare send must not block: capacity class
	vc.oblige(st, "chan-capacity", text+" (send on a buffered channel must have room and the channel must be open)", where,
		and(not(eq(ch.S, "0")), "(< "+ln+" "+vc.chanCap(st, ch.S)+")", not(vc.chanClosed(st, ch.S))), nil)
	nb := vc.mkSlice(buf.T, store(vc.sliceArr(buf), ln, v.S), "(+ "+ln+" 1)", "true")
	h := vc.heapGet(st, ci.bn, ci.bsort, buf.T)
	st.heap[ci.bn] = Term{S: store(h.S, ch.S, nb.S), Sort: ci.bsort}
}

func (vc *VC) execSelect(st *State, x *ast.SelectStmt) []*State {
	return vc.execSelectModel(st, x)
}

var ifaceKeyed = map[string]bool{}

func ifaceKeyedGhost(h string) bool {
	if !strings.HasPrefix(h, "G$") {
		return false
	}
	name := strings.TrimPrefix(h, "G$")
	if i := strings.IndexAny(name, "!@"); i >= 0 {
		name = name[:i]
	}
	return ifaceKeyed[name]
}

// unrollLoop executes a loop exactly for up to vc.unroll iterations.
func (vc *VC) unrollLoop(st *State, label string, cond func(s *State) string, iter func(s *State) []*State) []*State {
	tg := &target{label: label, isLoop: true}
	vc.targets = append(vc.targets, tg)
	sts := []*State{st}
	var exits []*State
	for k := 0; k <= vc.unroll; k++ {
		var next []*State
		for _, s := range sts {
			ex := s.clone()
			c := cond(ex)
			ex.assume(not(c))
			exits = append(exits, ex)
			if k == vc.unroll {
				continue // unwinding bound reached: deeper executions are not explored
			}
			b := s
			b.assume(cond(b))
			next = append(next, iter(b)...)
		}
		sts = next
		// the unrolled execution is only used to look for counterexamples: it must stay small (nested loops over
		// selects multiply paths; an earlier run grew to tens of gigabytes here)
		vc.unrollStates += len(next)
		if vc.unrollStates > 1500 {
			panic(unsupported("unrolled search abandoned: too many paths"))
		}
		if len(sts)+len(exits) > maxPaths {
			break
		}
	}
	vc.targets = vc.targets[:len(vc.targets)-1]
	exits = append(exits, tg.breaks...)
	return exits
}

// addressTaken: local variables whose address is taken in body (explicitly, or implicitly as the receiver of a
// pointer-receiver method). They live in a heap cell from their first assignment on.
func (vc *VC) addressTaken(body *ast.BlockStmt) map[types.Object]bool {
	out := map[types.Object]bool{}
	if body == nil {
		return out
	}
	ast.Inspect(body, func(n ast.Node) bool {
		switch x := n.(type) {
		case *ast.UnaryExpr:
			if x.Op == token.AND {
				if id, ok := ast.Unparen(x.X).(*ast.Ident); ok {
					if o := vc.info.Uses[id]; o != nil {
						out[o] = true
					}
				}
			}
		case *ast.CallExpr:
			se, ok := ast.Unparen(x.Fun).(*ast.SelectorExpr)
			if !ok {
				return true
			}
			sel, ok := vc.info.Selections[se]
			if !ok || sel.Kind() != types.MethodVal {
				return true
			}
			id, ok := ast.Unparen(se.X).(*ast.Ident)
			if !ok {
				return true
			}
			fn, ok := sel.Obj().(*types.Func)
			if !ok {
				return true
			}
			recv := fn.Type().(*types.Signature).Recv()
			if recv == nil {
				return true
			}
			if _, isPtr := recv.Type().(*types.Pointer); !isPtr {
				return true
			}
			if o := vc.info.Uses[id]; o != nil {
				if _, varIsPtr := under(o.Type()).(*types.Pointer); !varIsPtr {
					if _, isIface := under(o.Type()).(*types.Interface); !isIface {
						out[o] = true
					}
				}
			}
		}
		return true
	})
	return out
}

// execForeach: x.Loop(func(k, v) { body }) where the contract of Loop says `opt foreach=<map field>` (and, if the
// method locks, `opt foreachlock=<mutex field>`): the call is executed as
//     lock; for k, v := range x.<field> { body }; unlock
// at the call site, as a loop of the CALLER (ordinal in source order, invariants from the caller's contract). This is
// how an effectful function literal passed to a for-each method is verified; the callee's own body is verified
// separately against the same reading (its requires/ensures are checked/assumed here as for any call).
func (vc *VC) execForeach(st *State, call *ast.CallExpr, spec *FuncSpec, callee *types.Func, recv Term, fld string) {
	lit := call.Args[0].(*ast.FuncLit)
	n := vc.loopOrd[call]
	ls := vc.loopSpec(n)
	pt, ok := under(recv.T).(*types.Pointer)
	if !ok {
		vc.fail(call, "foreach receiver must be a pointer")
	}
	et := vc.ts.apply(pt.Elem())
	stt := under(et).(*types.Struct)
	names := vc.p.paramNames(spec, callee.Type().(*types.Signature))
	vars := map[string]Term{}
	if len(names) > 0 {
		vars[names[0]] = recv
	}
	pre := st.clone()
	env := &SpecEnv{vc: vc, st: st, old: pre, vars: vars, pkg: callee.Pkg(), allocOld: pre.alloc}
	for _, r := range spec.Requires {
		if !vc.wanted(r.Props) {
			continue
		}
		vc.oblige(st, "pre@"+spec.Key, r.Text, vc.pos(call), env.evalBool(r.Expr), r.Props)
	}
	vc.oblige(st, "safe-nil", exprString(call.Fun), vc.pos(call), not(eq(recv.S, "0")), nil)
	lockHeap := ""
	if mu := spec.Opts["foreachlock"]; mu != "" {
		lockHeap = vc.lockHeapName(et, mu)
		h := vc.heapGet(st, lockHeap, "(Array Int Int)", nil)
		vc.oblige(st, "lock-order", "for-each acquires "+mu+" while not already held by this activation", vc.pos(call), eq(sel(h.S, recv.S), "0"), nil)
		st.heap[lockHeap] = Term{S: store(h.S, recv.S, "1"), Sort: "(Array Int Int)"}
	}
	var mf *types.Var
	for i := 0; i < stt.NumFields(); i++ {
		if stt.Field(i).Name() == fld {
			mf = stt.Field(i)
		}
	}
	if mf == nil {
		vc.fail(call, "foreach: no field %s", fld)
	}
	rng := vc.loadField(st, et, mf, recv.S)
	mi := vc.mapInfo(rng.T)
	visName := ls.Visited
	if visName == "" {
		visName = fmt.Sprintf("$vis%d", n)
	}
	if ls.Over != "" {
		st.ghost[ls.Over] = rng
	}
	vsort := "(Array " + mi.ks + " Bool)"
	mkVis := func(s string) Term {
		return Term{S: s, Sort: vsort, KT: mi.K, VT: types.Typ[types.Bool], KS: mi.ks, VS: "Bool"}
	}
	guard := func(s *State) string {
		d := vc.mapDom(s, mi, rng.S)
		return fmt.Sprintf("(exists ((k!r %s)) (and (select %s k!r) (not (select %s k!r))))", mi.ks, d, s.ghost[visName].S)
	}
	iter := func(s *State) []*State {
		k := vc.fresh("key", mi.K)
		d := vc.mapDom(s, mi, rng.S)
		s.assume(fmt.Sprintf("(and (select %s %s) (not (select %s %s)))", d, k.S, s.ghost[visName].S, k.S))
		s.assume(vc.u.WF(k.S, mi.K, s.alloc))
		v := vc.mapLookup(s, mi, rng.S, k.S)
		outs := vc.inlineClosure(s, lit, []Term{k, v})
		for _, o := range outs {
			o.ghost[visName] = mkVis(store(o.ghost[visName].S, k.S, "true"))
		}
		return outs
	}
	st.ghost[visName] = mkVis("((as const " + vsort + ") false)")
	entry := st.clone()
	var exit *State
	if vc.unroll > 0 {
		outs := vc.unrollLoop(st, "", guard, iter)
		if len(outs) != 1 {
			vc.fail(call, "foreach under unrolling: %d exits", len(outs))
		}
		exit = outs[0]
	} else {
		ms := vc.dryRun(st, "", func(s *State) []*State { s.assume(guard(s)); return iter(s) })
		vc.checkInvs(st, ls, "inv-entry", entry, n, vc.pos(call))
		head := vc.havocFor(st, ms, ls, entry)
		v := vc.freshSort("vis", vsort)
		head.ghost[visName] = mkVis(v.S)
		vc.assumeInvs(head, ls, entry)
		exit = head.clone()
		exit.assume(not(guard(exit)))
		bodySt := head.clone()
		bodySt.assume(guard(bodySt))
		for _, o := range iter(bodySt) {
			vc.checkInvs(o, ls, "inv-preserve", entry, n, vc.pos(call))
		}
		vc.coverLoopExit(n, []*State{exit}, entry, vc.pos(call))
		vc.anchors([]*State{exit}, fmt.Sprintf("afterloop%d", n), entry)
	}
	if lockHeap != "" {
		h := vc.heapGet(exit, lockHeap, "(Array Int Int)", nil)
		exit.heap[lockHeap] = Term{S: store(h.S, recv.S, "0"), Sort: "(Array Int Int)"}
	}
	*st = *exit
	vc.note("for-each call " + exprString(call.Fun) + " executed as a loop over " + fld + " at the call site (contract option foreach)")
}

// coverLoopExit: vacuity probe for loop cutting. The state in which a loop is left (head state: invariants and the
// engine's own facts assumed over havocked variables, plus the negated guard) must be satisfiable unless the state
// before the loop already was not; otherwise everything after the loop would be provable.
func (vc *VC) coverLoopExit(n int, exits []*State, entry *State, where string) {
	if vc.dry > 0 || vc.quiet > 0 || len(exits) == 0 || vc.unroll > 0 {
		return
	}
	key := fmt.Sprintf("loop%d", n)
	if vc.callCovered[key] {
		return
	}
	vc.callCovered[key] = true
	// all exit states are joined: it is enough that one of them is reachable
	var alts []string
	base := len(entry.facts)
	for _, e := range exits {
		if len(e.facts) < base {
			return
		}
		alts = append(alts, and(e.facts[base:]...))
	}
	st := entry.clone()
	st.assume(or(alts...))
	if o := vc.oblige(st, "cover-loop-exit", fmt.Sprintf("the state after loop %d of %s is reachable", n, vc.fi.Key), where, "false", nil); o != nil {
		o.Cover = true
		o.PreFacts = append([]string(nil), entry.facts...)
	}
}
