package main

import (
	"context"
	"encoding/json"
	"fmt"
	"go/ast"
	"go/constant"
	"go/token"
	"os"
	"os/exec"
	"path/filepath"
	"regexp"
	"strconv"
	"strings"
	"time"
)

// Bounded stand-ins (labelled bounded, never counted as proved).
//
//   bounded[C11] regexp <GlobalVar>: json-array-label maxlen=<n>
//
// The regular expression compiled into the package-level variable is taken from the repository's source on every
// run and compared, on every string over a small alphabet up to the stated length, with the text-level predicate
// "optional JSON whitespace, '[', optional JSON whitespace, a JSON string made of word characters" (what a NIP-01
// client message starts with). regexp semantics cannot be put under a contract of this verifier.

type BoundedCheck struct {
	TestName string
	Name     string
	Props    []string
	Kind     string
	Target   string
	MaxLen   int
	Where    string
	Pkg      string
}

type BoundedResult struct {
	Check       *BoundedCheck
	OK          bool
	Evaluations int
	Witness     string
	Detail      string
	Err         error
}

func isJSONWS(c byte) bool   { return c == ' ' || c == '\t' || c == '\n' || c == '\r' }
func isRegexpWS(c byte) bool { return isJSONWS(c) || c == '\f' || c == '\v' }
func isWord(c byte) bool {
	return c == '_' || c >= '0' && c <= '9' || c >= 'a' && c <= 'z' || c >= 'A' && c <= 'Z'
}

// jsonArrayLabelPrefix: does s start with ws* '[' ws* '"' \w* '"' ? returns the label.
func jsonArrayLabelPrefix(s string, ws func(byte) bool) (string, bool) {
	i := 0
	for i < len(s) && ws(s[i]) {
		i++
	}
	if i >= len(s) || s[i] != '[' {
		return "", false
	}
	i++
	for i < len(s) && ws(s[i]) {
		i++
	}
	if i >= len(s) || s[i] != '"' {
		return "", false
	}
	i++
	j := i
	for j < len(s) && isWord(s[j]) {
		j++
	}
	if j >= len(s) || s[j] != '"' {
		return "", false
	}
	return s[i:j], true
}

func (p *Prog) regexpSource(pkgPath, varName string) (string, error) {
	for _, pk := range p.sortedPkgs() {
		if pkgPath != "" && pk.PkgPath != pkgPath {
			continue
		}
		for _, f := range pk.Syntax {
			for _, d := range f.Decls {
				gd, ok := d.(*ast.GenDecl)
				if !ok || gd.Tok != token.VAR {
					continue
				}
				for _, sp := range gd.Specs {
					vs := sp.(*ast.ValueSpec)
					for i, n := range vs.Names {
						if n.Name != varName || i >= len(vs.Values) {
							continue
						}
						call, ok := vs.Values[i].(*ast.CallExpr)
						if !ok || len(call.Args) != 1 {
							return "", fmt.Errorf("%s is not initialised by regexp.MustCompile(<constant>)", varName)
						}
						tv, ok := pk.TypesInfo.Types[call.Args[0]]
						if !ok || tv.Value == nil || tv.Value.Kind() != constant.String {
							return "", fmt.Errorf("%s: pattern is not a constant", varName)
						}
						return constant.StringVal(tv.Value), nil
					}
				}
			}
		}
	}
	return "", fmt.Errorf("variable %s not found", varName)
}

func (p *Prog) runBounded(c *BoundedCheck) *BoundedResult {
	res := &BoundedResult{Check: c}
	if c.Kind == "gotest" {
		return p.runBoundedGoTest(c)
	}
	src, err := p.regexpSource(c.Pkg, c.Target)
	if err != nil {
		res.Err = err
		return res
	}
	re, err := regexp.Compile(src)
	if err != nil {
		res.Err = err
		return res
	}
	alphabet := []byte{' ', '\t', '\n', '\r', '\f', '[', '"', 'E', 'q', '1', ',', '{'}
	var rec func(prefix []byte)
	res.OK = true
	rec = func(prefix []byte) {
		if !res.OK {
			return
		}
		s := string(prefix)
		res.Evaluations++
		m := re.FindSubmatch(prefix)
		// completeness: a well-formed prefix (JSON whitespace only) must match and yield its label;
		// soundness: whatever matches must be such a prefix up to the wider whitespace class of the regexp engine
		label, want := jsonArrayLabelPrefix(s, isJSONWS)
		llabel, lenient := jsonArrayLabelPrefix(s, isRegexpWS)
		got := len(m) > 0
		if (want && (!got || len(m) != 2 || string(m[1]) != label)) || (got && (!lenient || len(m) != 2 || string(m[1]) != llabel)) {
			res.OK = false
			res.Witness = s
			res.Detail = fmt.Sprintf("pattern %s on %s: match=%v, expected %v (label %q)", strconv.Quote(src), strconv.Quote(s), got, want, label)
			return
		}
		if len(prefix) >= c.MaxLen {
			return
		}
		for _, b := range alphabet {
			rec(append(append([]byte(nil), prefix...), b))
		}
	}
	rec(nil)
	return res
}

// runBoundedGoTest runs a bounded enumeration written as an in-package Go test (kept in /verif/bounded, injected
// with -overlay). The test prints "GOVC-BOUNDED evaluations=<n>" on success and
// "GOVC-BOUNDED-FAIL <witness>" on the first failing case.
func (p *Prog) runBoundedGoTest(c *BoundedCheck) *BoundedResult {
	res := &BoundedResult{Check: c}
	var pkgDir string
	for _, pk := range p.sortedPkgs() {
		if pk.PkgPath == c.Pkg && len(pk.GoFiles) > 0 {
			pkgDir = filepath.Dir(pk.GoFiles[0])
		}
	}
	if pkgDir == "" {
		res.Err = fmt.Errorf("package %s not found", c.Pkg)
		return res
	}
	src := c.Target
	if !filepath.IsAbs(src) {
		src = filepath.Join(p.specDir, "..", src)
	}
	if _, err := os.Stat(src); err != nil {
		res.Err = err
		return res
	}
	tmp, _ := os.MkdirTemp("", "govc-bounded-")
	defer os.RemoveAll(tmp)
	ov := filepath.Join(tmp, "ov.json")
	b, _ := json.Marshal(map[string]any{"Replace": map[string]string{filepath.Join(pkgDir, "zz_govc_bounded_test.go"): src}})
	os.WriteFile(ov, b, 0o644)
	// generous limits: from a fresh restore the build cache is cold (cgo sqlite3: about a minute on an idle machine)
	// and the machine may be busy; a bounded test that is cut short makes the run undecided (exit 2)
	ctx, cancel := context.WithTimeout(context.Background(), 1200*time.Second)
	defer cancel()
	cmd := exec.CommandContext(ctx, "go", "test", "-v", "-overlay", ov, "-vet=off", "-count=1", "-timeout", "900s", "-run", "^"+c.TestName+"$", ".")
	cmd.Dir = pkgDir
	cmd.Env = append(os.Environ(), "GOFLAGS=-mod=mod", "GOPROXY=off", "GOSUMDB=off", "GOTOOLCHAIN=local")
	out, _ := cmd.CombinedOutput()
	text := string(out)
	if i := strings.Index(text, "GOVC-BOUNDED-FAIL"); i >= 0 {
		res.OK = false
		res.Witness = strings.TrimSpace(strings.SplitN(text[i+len("GOVC-BOUNDED-FAIL"):], "\n", 2)[0])
		res.Detail = "bounded enumeration " + c.TestName + " found a failing case: " + res.Witness
		return res
	}
	if i := strings.Index(text, "GOVC-BOUNDED evaluations="); i >= 0 {
		fmt.Sscanf(text[i:], "GOVC-BOUNDED evaluations=%d", &res.Evaluations)
		res.OK = strings.Contains(text, "\nok ") || strings.Contains(text, "PASS")
		if res.OK {
			return res
		}
	}
	res.Err = fmt.Errorf("bounded test %s did not complete: %s", c.TestName, truncate(text, 400))
	return res
}

func parseBounded(rest, pkg, where string, props []string) (*BoundedCheck, error) {
	if fs := strings.Fields(rest); len(fs) >= 3 && fs[0] == "gotest" {
		// "gotest <file relative to /verif> <TestName>"
		return &BoundedCheck{Name: "bounded/gotest/" + fs[2], Props: props, Kind: "gotest", Target: fs[1], TestName: fs[2], Where: where, Pkg: pkg, MaxLen: 0}, nil
	}
	// "regexp <Var>: json-array-label maxlen=<n>"
	fs := strings.Fields(strings.ReplaceAll(rest, ":", " "))
	if len(fs) < 4 || fs[0] != "regexp" || fs[2] != "json-array-label" || !strings.HasPrefix(fs[3], "maxlen=") {
		return nil, fmt.Errorf("expected: bounded[Cxx] regexp <Var>: json-array-label maxlen=<n>")
	}
	n, err := strconv.Atoi(strings.TrimPrefix(fs[3], "maxlen="))
	if err != nil {
		return nil, err
	}
	return &BoundedCheck{Name: "bounded/regexp/" + fs[1], Props: props, Kind: "regexp", Target: fs[1], MaxLen: n, Where: where, Pkg: pkg}, nil
}
