package main

import (
	"fmt"
	"go/ast"
	"go/constant"
	"go/token"
	"regexp"
	"strconv"
	"strings"
)

// Bounded stand-ins (labelled bounded, never counted as proved).
//
//   bounded[C11] regexp <GlobalVar>: json-array-label maxlen=<n>
//
// The regular expression compiled into the package-level variable is taken from the repository's source on every
// run and compared, on every string over a small alphabet up to the stated length, with the text-level predicate
// "optional JSON whitespace, '[', optional JSON whitespace, a JSON string made of word characters" (what a NIP-01
// client message starts with). regexp semantics cannot be put under a contract of this verifier.

type BoundedCheck struct {
	Name   string
	Props  []string
	Kind   string
	Target string
	MaxLen int
	Where  string
	Pkg    string
}

type BoundedResult struct {
	Check       *BoundedCheck
	OK          bool
	Evaluations int
	Witness     string
	Detail      string
	Err         error
}

func isJSONWS(c byte) bool   { return c == ' ' || c == '\t' || c == '\n' || c == '\r' }
func isRegexpWS(c byte) bool { return isJSONWS(c) || c == '\f' || c == '\v' }
func isWord(c byte) bool {
	return c == '_' || c >= '0' && c <= '9' || c >= 'a' && c <= 'z' || c >= 'A' && c <= 'Z'
}

// jsonArrayLabelPrefix: does s start with ws* '[' ws* '"' \w* '"' ? returns the label.
func jsonArrayLabelPrefix(s string, ws func(byte) bool) (string, bool) {
	i := 0
	for i < len(s) && ws(s[i]) {
		i++
	}
	if i >= len(s) || s[i] != '[' {
		return "", false
	}
	i++
	for i < len(s) && ws(s[i]) {
		i++
	}
	if i >= len(s) || s[i] != '"' {
		return "", false
	}
	i++
	j := i
	for j < len(s) && isWord(s[j]) {
		j++
	}
	if j >= len(s) || s[j] != '"' {
		return "", false
	}
	return s[i:j], true
}

func (p *Prog) regexpSource(pkgPath, varName string) (string, error) {
	for _, pk := range p.sortedPkgs() {
		if pkgPath != "" && pk.PkgPath != pkgPath {
			continue
		}
		for _, f := range pk.Syntax {
			for _, d := range f.Decls {
				gd, ok := d.(*ast.GenDecl)
				if !ok || gd.Tok != token.VAR {
					continue
				}
				for _, sp := range gd.Specs {
					vs := sp.(*ast.ValueSpec)
					for i, n := range vs.Names {
						if n.Name != varName || i >= len(vs.Values) {
							continue
						}
						call, ok := vs.Values[i].(*ast.CallExpr)
						if !ok || len(call.Args) != 1 {
							return "", fmt.Errorf("%s is not initialised by regexp.MustCompile(<constant>)", varName)
						}
						tv, ok := pk.TypesInfo.Types[call.Args[0]]
						if !ok || tv.Value == nil || tv.Value.Kind() != constant.String {
							return "", fmt.Errorf("%s: pattern is not a constant", varName)
						}
						return constant.StringVal(tv.Value), nil
					}
				}
			}
		}
	}
	return "", fmt.Errorf("variable %s not found", varName)
}

func (p *Prog) runBounded(c *BoundedCheck) *BoundedResult {
	res := &BoundedResult{Check: c}
	src, err := p.regexpSource(c.Pkg, c.Target)
	if err != nil {
		res.Err = err
		return res
	}
	re, err := regexp.Compile(src)
	if err != nil {
		res.Err = err
		return res
	}
	alphabet := []byte{' ', '\n', '\r', '\f', '[', '"', 'E', 'q', '1', ',', '{'}
	var rec func(prefix []byte)
	res.OK = true
	rec = func(prefix []byte) {
		if !res.OK {
			return
		}
		s := string(prefix)
		res.Evaluations++
		m := re.FindSubmatch(prefix)
		// completeness: a well-formed prefix (JSON whitespace only) must match and yield its label;
		// soundness: whatever matches must be such a prefix up to the wider whitespace class of the regexp engine
		label, want := jsonArrayLabelPrefix(s, isJSONWS)
		llabel, lenient := jsonArrayLabelPrefix(s, isRegexpWS)
		got := len(m) > 0
		if (want && (!got || len(m) != 2 || string(m[1]) != label)) || (got && (!lenient || len(m) != 2 || string(m[1]) != llabel)) {
			res.OK = false
			res.Witness = s
			res.Detail = fmt.Sprintf("pattern %s on %s: match=%v, expected %v (label %q)", strconv.Quote(src), strconv.Quote(s), got, want, label)
			return
		}
		if len(prefix) >= c.MaxLen {
			return
		}
		for _, b := range alphabet {
			rec(append(append([]byte(nil), prefix...), b))
		}
	}
	rec(nil)
	return res
}

func parseBounded(rest, pkg, where string, props []string) (*BoundedCheck, error) {
	// "regexp <Var>: json-array-label maxlen=<n>"
	fs := strings.Fields(strings.ReplaceAll(rest, ":", " "))
	if len(fs) < 4 || fs[0] != "regexp" || fs[2] != "json-array-label" || !strings.HasPrefix(fs[3], "maxlen=") {
		return nil, fmt.Errorf("expected: bounded[Cxx] regexp <Var>: json-array-label maxlen=<n>")
	}
	n, err := strconv.Atoi(strings.TrimPrefix(fs[3], "maxlen="))
	if err != nil {
		return nil, err
	}
	return &BoundedCheck{Name: "bounded/regexp/" + fs[1], Props: props, Kind: "regexp", Target: fs[1], MaxLen: n, Where: where, Pkg: pkg}, nil
}
