package main

import (
	"fmt"
	"strings"
	"sync"
)

// Canonical names for bound variables.
//
// The spec evaluator gives every bound variable a globally unique name (x!q17). Two occurrences of the same
// quantified subformula (an invariant assumed at the loop head and demanded again, a definition unfolded twice) are
// then alpha-equivalent but textually different, and the solvers treat them as unrelated quantifiers: z3 compares the
// names of bound variables when it hash-conses quantifiers. canonBound renames the variables of every binder by the
// binder's height (the nesting depth of binders below it), which does not depend on where the subformula occurs;
// alpha-equivalent subformulas built from the same clause become identical terms and are matched propositionally.
// Along one nesting chain heights strictly decrease, so no variable is captured.

type csx struct {
	atom string
	kids []*csx
}

func parseCsx(s string) *csx {
	var stack []*csx
	root := &csx{}
	cur := root
	i := 0
	for i < len(s) {
		c := s[i]
		switch {
		case c == '(':
			n := &csx{}
			cur.kids = append(cur.kids, n)
			stack = append(stack, cur)
			cur = n
			i++
		case c == ')':
			if len(stack) == 0 {
				return nil
			}
			cur = stack[len(stack)-1]
			stack = stack[:len(stack)-1]
			i++
		case c == ' ' || c == '\n' || c == '\t':
			i++
		case c == '"' || c == '|':
			j := i + 1
			for j < len(s) && s[j] != c {
				j++
			}
			if j >= len(s) {
				return nil
			}
			cur.kids = append(cur.kids, &csx{atom: s[i : j+1]})
			i = j + 1
		default:
			j := i
			for j < len(s) && s[j] != '(' && s[j] != ')' && s[j] != ' ' && s[j] != '\n' && s[j] != '\t' {
				j++
			}
			cur.kids = append(cur.kids, &csx{atom: s[i:j]})
			i = j
		}
	}
	if len(stack) != 0 || len(root.kids) != 1 {
		return nil
	}
	return root.kids[0]
}

func isBinder(n *csx) bool {
	if len(n.kids) != 3 || n.kids[0].kids != nil {
		return false
	}
	switch n.kids[0].atom {
	case "forall", "exists", "lambda":
		return n.kids[1].kids != nil || n.kids[1].atom == ""
	}
	return false
}

// height computes binder heights bottom-up and records them.
func sxHeight(n *csx, hs map[*csx]int) int {
	h := 0
	for _, k := range n.kids {
		if kh := sxHeight(k, hs); kh > h {
			h = kh
		}
	}
	if isBinder(n) {
		hs[n] = h
		return h + 1
	}
	return h
}

func baseOfBound(name string) (string, bool) {
	if i := strings.LastIndex(name, "!q"); i > 0 && allDigits(name[i+2:]) {
		return name[:i], true
	}
	if i := strings.LastIndex(name, "!w"); i > 0 && allDigits(name[i+2:]) {
		return name[:i], true
	}
	return "", false
}

func allDigits(s string) bool {
	if s == "" {
		return false
	}
	for _, c := range s {
		if c < '0' || c > '9' {
			return false
		}
	}
	return true
}

func sxPrint(n *csx, hs map[*csx]int, ren map[string]string, b *strings.Builder) {
	if n.kids == nil && n.atom != "" {
		if r, ok := ren[n.atom]; ok {
			b.WriteString(r)
		} else {
			b.WriteString(n.atom)
		}
		return
	}
	if isBinder(n) {
		h := hs[n]
		var added []string
		b.WriteByte('(')
		b.WriteString(n.kids[0].atom)
		b.WriteString(" (")
		for i, d := range n.kids[1].kids {
			if i > 0 {
				b.WriteByte(' ')
			}
			if len(d.kids) == 2 && d.kids[0].kids == nil {
				if base, ok := baseOfBound(d.kids[0].atom); ok {
					nn := fmt.Sprintf("%s!b%d_%d", base, h, i)
					ren[d.kids[0].atom] = nn
					added = append(added, d.kids[0].atom)
				}
			}
			sxPrint(d, hs, ren, b)
		}
		b.WriteString(") ")
		sxPrint(n.kids[2], hs, ren, b)
		b.WriteByte(')')
		for _, a := range added {
			delete(ren, a)
		}
		return
	}
	b.WriteByte('(')
	for i, k := range n.kids {
		if i > 0 {
			b.WriteByte(' ')
		}
		sxPrint(k, hs, ren, b)
	}
	b.WriteByte(')')
}

var canonCache sync.Map

// canonBound returns f with canonically named bound variables (f itself when it has none or does not parse).
func canonBound(f string) string {
	if !strings.Contains(f, "!q") && !strings.Contains(f, "!w") {
		return f
	}
	if v, ok := canonCache.Load(f); ok {
		return v.(string)
	}
	out := f
	if t := parseCsx(f); t != nil {
		hs := map[*csx]int{}
		sxHeight(t, hs)
		var b strings.Builder
		sxPrint(t, hs, map[string]string{}, &b)
		out = b.String()
	}
	canonCache.Store(f, out)
	return out
}
