package main

import (
	"os"
	"fmt"
	"go/types"
	"strings"
)

// Heap component names
//   F$<Struct>$<field>   : (Array Int <fieldSort>)       fields of pointer-to-struct objects
//   C$<sort>             : (Array Int <sort>)            cells of pointers to non-struct values
//   Md$K$V, Mv$K$V, Mc$K$V : map domain / values / cardinality
//   Chb$E, Chc, Chk      : channel buffer (slice value), closed flag, capacity
//   G$<name>             : ghost heaps declared by specs

func (vc *VC) heapGet(st *State, name, sort string, elemT types.Type) Term {
	if t, ok := st.heap[name]; ok {
		return t
	}
	if st.havocTok != "" && !vc.immutableHeap(name) && !vc.havocKnown[st.havocTok][name] {
		// the state went through a call without a frame: heaps that were not materialised then are unknown too
		key := st.havocTok + "|" + name
		if t, ok := vc.lazyHeaps[key]; ok {
			return t
		}
		if _, known := vc.heapSort[name]; !known {
			vc.heapSort[name] = sort
			vc.heapElemT[name] = elemT
		}
		sym := name + "@" + st.havocTok
		vc.declare(sym, sort)
		t := Term{S: sym, Sort: sort}
		vc.lazyHeaps[key] = t
		if f := vc.heapWF(name, sym, "alloc@0"); f != "true" {
			// refs stored in the unknown heap are only known to be non-negative; keep the shape facts
			vc.base = append(vc.base, strings.ReplaceAll(f, "alloc@0", "alloc@inf"))
			vc.declare("alloc@inf", "Int")
		}
		return t
	}
	if t, ok := vc.heap0[name]; ok {
		return t
	}
	sym := name + "@0"
	vc.declare(sym, sort)
	t := Term{S: sym, Sort: sort}
	vc.heap0[name] = t
	vc.heapSort[name] = sort
	vc.heapElemT[name] = elemT
	// type invariant of the initial heap
	if f := vc.heapWF(name, sym, "alloc@0"); f != "true" {
		vc.base = append(vc.base, f)
	}
	return t
}

// heapWF: forall r. wf(H[r])
func (vc *VC) heapWF(name, sym, alloc string) string {
	et := vc.heapElemT[name]
	switch {
	case strings.HasPrefix(name, "F$"), strings.HasPrefix(name, "C$"):
		if et == nil {
			return "true"
		}
		w := vc.u.WF("(select "+sym+" r!h)", et, alloc)
		if w == "true" {
			return "true"
		}
		if _, basic := under(et).(*types.Basic); basic {
			// machine-integer ranges hold at every address (they cannot conflict with a callee's postcondition)
			return "(forall ((r!h Int)) (! " + w + " :pattern ((select " + sym + " r!h))))"
		}
		// only allocated objects have well-formed reference fields: the fields of an object a callee is going to
		// allocate are described by the callee's postcondition (a callee that `writes nothing` leaves the heap
		// version unchanged)
		return "(forall ((r!h Int)) (! (=> (and (<= 0 r!h) (< r!h " + alloc + ")) " + w + ") :pattern ((select " + sym + " r!h))))"
	case strings.HasPrefix(name, "Mc$"):
		return "(forall ((r!h Int)) (! (and (>= (select " + sym + " r!h) 0) (<= (select " + sym + " r!h) 9223372036854775807)) :pattern ((select " + sym + " r!h))))"
	case strings.HasPrefix(name, "Mv$"):
		if et == nil {
			return "true"
		}
		ks := vc.heapSort[name]
		// sort is (Array Int (Array K V)); extract K
		k := mapKeySortFromHeapSort(ks)
		w := vc.u.WF("(select (select "+sym+" r!h) k!h)", et, alloc)
		if w == "true" {
			return "true"
		}
		return "(forall ((r!h Int) (k!h " + k + ")) (! (=> (and (<= 0 r!h) (< r!h " + alloc + ")) " + w + ") :pattern ((select (select " + sym + " r!h) k!h))))"
	case strings.HasPrefix(name, "Md$"):
		// the nil map has an empty domain
		ks := vc.heapSort[name]
		k := mapKeySortFromHeapSort(ks)
		f := "(forall ((k!h " + k + ")) (not (select (select " + sym + " 0) k!h)))"
		if et != nil {
			// every key in a map's domain is a well-formed value of the key type
			if w := vc.u.WF("k!h", et, alloc); w != "true" {
				f = "(and " + f + " (forall ((r!h Int) (k!h " + k + ")) (! (=> (and (<= 0 r!h) (< r!h " + alloc + ") (select (select " + sym + " r!h) k!h)) " + w + ") :pattern ((select (select " + sym + " r!h) k!h)))))"
			}
		}
		return f
	case strings.HasPrefix(name, "G$"):
		// ghost sequences: only the shape of the slice value (0 <= len), nothing about the elements
		if et == nil {
			return "true"
		}
		if _, isSlice := under(et).(*types.Slice); !isSlice || strings.HasPrefix(name, "G$tokval$") {
			return "true"
		}
		x := Term{S: "(select " + sym + " r!h)", T: et, Sort: vc.u.SortOf(et)}
		return "(forall ((r!h Int)) (! (and (>= " + vc.sliceLen(x) + " 0) (<= " + vc.sliceLen(x) + " 9223372036854775807)) :pattern ((select " + sym + " r!h))))"
	case name == "Chh":
		return "(forall ((r!h Int)) (! (>= (select " + sym + " r!h) 0) :pattern ((select " + sym + " r!h))))"
	case strings.HasPrefix(name, "Chb$"):
		if et == nil {
			return "true"
		}
		w := vc.u.WF("(select "+sym+" r!h)", et, alloc)
		if w == "true" {
			return "true"
		}
		return "(forall ((r!h Int)) (! (=> (and (<= 0 r!h) (< r!h " + alloc + ")) " + w + ") :pattern ((select " + sym + " r!h))))"
	}
	return "true"
}

func mapKeySortFromHeapSort(s string) string {
	// "(Array Int (Array K V))"
	inner := strings.TrimPrefix(s, "(Array Int (Array ")
	// K may be parenthesised
	return firstSExpr(inner)
}

func firstSExpr(s string) string {
	s = strings.TrimSpace(s)
	if s == "" {
		return s
	}
	if s[0] != '(' {
		i := strings.IndexAny(s, " )")
		if i < 0 {
			return s
		}
		return s[:i]
	}
	d := 0
	for i, c := range s {
		if c == '(' {
			d++
		} else if c == ')' {
			d--
			if d == 0 {
				return s[:i+1]
			}
		}
	}
	return s
}

func (vc *VC) heapSet(st *State, name string, t Term) {
	st.heap[name] = t
}

// ---- struct objects behind pointers

func (vc *VC) fieldHeap(structT types.Type, f *types.Var) (name, sort string) {
	fs := vc.u.SortOf(vc.ts.apply(f.Type()))
	return vc.u.heapField(structT, f.Name()), "(Array Int " + fs + ")"
}

func (vc *VC) loadField(st *State, structT types.Type, f *types.Var, ref string) Term {
	ft := vc.ts.apply(f.Type())
	name, sort := vc.fieldHeap(structT, f)
	h := vc.heapGet(st, name, sort, ft)
	return Term{S: sel(h.S, ref), T: ft, Sort: vc.u.SortOf(ft)}
}

func (vc *VC) storeField(st *State, structT types.Type, f *types.Var, ref string, v Term) {
	ft := vc.ts.apply(f.Type())
	name, sort := vc.fieldHeap(structT, f)
	h := vc.heapGet(st, name, sort, ft)
	st.heap[name] = Term{S: store(h.S, ref, v.S), Sort: sort}
}

func (vc *VC) cellHeap(elemT types.Type) (name, sort string) {
	es := vc.u.SortOf(elemT)
	return "C$" + sanitize(es), "(Array Int " + es + ")"
}

// loadDeref evaluates *p.
func (vc *VC) loadDeref(st *State, elemT types.Type, ref string) Term {
	if stt, ok := under(elemT).(*types.Struct); ok {
		s := vc.u.SortOf(elemT)
		if stt.NumFields() == 0 {
			return Term{S: "mk_" + s, T: elemT, Sort: s}
		}
		parts := make([]string, stt.NumFields())
		for i := 0; i < stt.NumFields(); i++ {
			parts[i] = vc.loadField(st, elemT, stt.Field(i), ref).S
		}
		return Term{S: "(mk_" + s + " " + strings.Join(parts, " ") + ")", T: elemT, Sort: s}
	}
	name, sort := vc.cellHeap(elemT)
	h := vc.heapGet(st, name, sort, elemT)
	return Term{S: sel(h.S, ref), T: elemT, Sort: vc.u.SortOf(elemT)}
}

func (vc *VC) storeDeref(st *State, elemT types.Type, ref string, v Term) {
	if stt, ok := under(elemT).(*types.Struct); ok {
		s := vc.u.SortOf(elemT)
		for i := 0; i < stt.NumFields(); i++ {
			f := stt.Field(i)
			fv := Term{S: vc.selFieldS(s, f.Name(), i, v.S), T: vc.ts.apply(f.Type()), Sort: vc.u.SortOf(vc.ts.apply(f.Type()))}
			vc.storeField(st, elemT, f, ref, fv)
		}
		return
	}
	name, sort := vc.cellHeap(elemT)
	h := vc.heapGet(st, name, sort, elemT)
	st.heap[name] = Term{S: store(h.S, ref, v.S), Sort: sort}
}

// alloc returns a fresh reference.
func (vc *VC) alloc(st *State, t types.Type) Term {
	r := vc.fresh("new", t)
	st.assume(eq(r.S, st.alloc))
	na := vc.freshSort("alloc", "Int")
	st.assume(eq(na.S, "(+ "+st.alloc+" 1)"))
	st.alloc = na.S
	// a freshly allocated struct starts with its mutex fields unlocked
	if pt, ok := under(t).(*types.Pointer); ok {
		et := vc.ts.apply(pt.Elem())
		if stt, ok := under(et).(*types.Struct); ok {
			for i := 0; i < stt.NumFields(); i++ {
				if n, ok := stt.Field(i).Type().(*types.Named); ok && n.Obj().Pkg() != nil && n.Obj().Pkg().Path() == "sync" && (n.Obj().Name() == "Mutex" || n.Obj().Name() == "RWMutex") {
					hn := vc.lockHeapName(et, stt.Field(i).Name())
					h := vc.heapGet(st, hn, "(Array Int Int)", nil)
					st.heap[hn] = Term{S: store(h.S, r.S, "0"), Sort: "(Array Int Int)"}
				}
			}
		}
	}
	return r
}

// ---- maps

type mapHeaps struct {
	K, V       types.Type
	ks, vs     string
	dn, vn, cn string
	dsort      string
	vsort      string
}

func (vc *VC) mapInfo(t types.Type) mapHeaps {
	mt := under(t).(*types.Map)
	k, v := vc.ts.apply(mt.Key()), vc.ts.apply(mt.Elem())
	ks, vs := vc.u.SortOf(k), vc.u.SortOf(v)
	// heaps are split by Go key/value type (maps of different Go types never alias)
	sfx := sanitize(typeKey(k)) + "$" + sanitize(typeKey(v))
	return mapHeaps{K: k, V: v, ks: ks, vs: vs, dn: "Md$" + sfx, vn: "Mv$" + sfx, cn: "Mc$" + sfx,
		dsort: "(Array Int (Array " + ks + " Bool))", vsort: "(Array Int (Array " + ks + " " + vs + "))"}
}

func (vc *VC) mapDom(st *State, mi mapHeaps, ref string) string {
	h := vc.heapGet(st, mi.dn, mi.dsort, mi.K)
	return sel(h.S, ref)
}
func (vc *VC) mapVal(st *State, mi mapHeaps, ref string) string {
	h := vc.heapGet(st, mi.vn, mi.vsort, mi.V)
	return sel(h.S, ref)
}
func (vc *VC) mapCard(st *State, mi mapHeaps, ref string) string {
	h := vc.heapGet(st, mi.cn, "(Array Int Int)", nil)
	return sel(h.S, ref)
}

func (vc *VC) mapHas(st *State, mi mapHeaps, ref, key string) string {
	return sel(vc.mapDom(st, mi, ref), key)
}

func (vc *VC) mapLookup(st *State, mi mapHeaps, ref, key string) Term {
	z := vc.u.Zero(mi.V)
	return Term{S: ite(vc.mapHas(st, mi, ref, key), sel(vc.mapVal(st, mi, ref), key), z.S), T: mi.V, Sort: mi.vs}
}

func (vc *VC) mapStore(st *State, mi mapHeaps, ref, key string, v Term) {
	had := vc.mapHas(st, mi, ref, key)
	dh := vc.heapGet(st, mi.dn, mi.dsort, mi.K)
	vh := vc.heapGet(st, mi.vn, mi.vsort, mi.V)
	ch := vc.heapGet(st, mi.cn, "(Array Int Int)", nil)
	newCard := fmt.Sprintf("(+ %s (ite %s 0 1))", sel(ch.S, ref), had)
	st.heap[mi.cn] = Term{S: store(ch.S, ref, newCard), Sort: "(Array Int Int)"}
	st.heap[mi.dn] = Term{S: store(dh.S, ref, store(sel(dh.S, ref), key, "true")), Sort: mi.dsort}
	st.heap[mi.vn] = Term{S: store(vh.S, ref, store(sel(vh.S, ref), key, v.S)), Sort: mi.vsort}
}

func (vc *VC) mapDelete(st *State, mi mapHeaps, ref, key string) {
	had := vc.mapHas(st, mi, ref, key)
	dh := vc.heapGet(st, mi.dn, mi.dsort, mi.K)
	ch := vc.heapGet(st, mi.cn, "(Array Int Int)", nil)
	newCard := fmt.Sprintf("(- %s (ite %s 1 0))", sel(ch.S, ref), had)
	st.heap[mi.cn] = Term{S: store(ch.S, ref, newCard), Sort: "(Array Int Int)"}
	st.heap[mi.dn] = Term{S: store(dh.S, ref, store(sel(dh.S, ref), key, "false")), Sort: mi.dsort}
}

// mapNew allocates an empty map.
func (vc *VC) mapNew(st *State, t types.Type) Term {
	mi := vc.mapInfo(t)
	r := vc.alloc(st, t)
	dh := vc.heapGet(st, mi.dn, mi.dsort, mi.K)
	ch := vc.heapGet(st, mi.cn, "(Array Int Int)", nil)
	st.heap[mi.dn] = Term{S: store(dh.S, r.S, "((as const (Array "+mi.ks+" Bool)) false)"), Sort: mi.dsort}
	st.heap[mi.cn] = Term{S: store(ch.S, r.S, "0"), Sort: "(Array Int Int)"}
	return r
}

// cardFacts: finite-set facts linking card and dom for one map (trusted set theory).
func (vc *VC) cardFacts(st *State, mi mapHeaps, ref string) string {
	c := vc.mapCard(st, mi, ref)
	d := vc.mapDom(st, mi, ref)
	// "the domain is empty", with stores peeled off so that the quantifier has a plain select pattern
	base := d
	var exceptions []string
	nonEmpty := false
	for os.Getenv("GOVC_NO_PEEL") == "" && strings.HasPrefix(base, "(store ") {
		args := splitSExprArgs(base[len("(store ") : len(base)-1])
		if len(args) != 3 || (args[2] != "true" && args[2] != "false") {
			break
		}
		if args[2] == "true" {
			// a key stored as present: decisive only if no later (outer) store could have removed it
			if len(exceptions) == 0 {
				nonEmpty = true
			} else {
				shadowed := false
				for _, e := range exceptions {
					if e == args[1] {
						shadowed = true
					}
				}
				if !shadowed {
					// cannot tell syntactically: keep the general form
					return fmt.Sprintf("(and (>= %s 0) (<= %s 9223372036854775807) (= (= %s 0) (forall ((k!c %s)) (not (select %s k!c)))))", c, c, c, mi.ks, d)
				}
			}
		}
		exceptions = append(exceptions, args[1])
		base = args[0]
	}
	empty := "false"
	if !nonEmpty {
		var ors []string
		for _, e := range exceptions {
			ors = append(ors, eq("k!c", e))
		}
		ors = append(ors, not(sel(base, "k!c")))
		body := ors[0]
		if len(ors) > 1 {
			body = "(or " + strings.Join(ors, " ") + ")"
		}
		if strings.Contains(base, "(ite ") || len(exceptions) == 0 {
			// (no explicit pattern: 'ite' is not allowed in patterns, and the plain form needs none)
			empty = fmt.Sprintf("(forall ((k!c %s)) %s)", mi.ks, body)
		} else {
			empty = fmt.Sprintf("(forall ((k!c %s)) (! %s :pattern ((select %s k!c))))", mi.ks, body, base)
		}
	}
	return fmt.Sprintf("(and (>= %s 0) (<= %s 9223372036854775807) (= (= %s 0) %s))", c, c, c, empty)
}

// ---- channels (sequential model: buffer content as a slice value)

type chanHeaps struct {
	E          types.Type
	es, ss     string
	bn, cn, kn string
	bsort      string
}

func (vc *VC) chanInfo(t types.Type) chanHeaps {
	ct := under(t).(*types.Chan)
	e := vc.ts.apply(ct.Elem())
	es := vc.u.SortOf(e)
	ss := vc.u.SortOf(types.NewSlice(e))
	return chanHeaps{E: e, es: es, ss: ss, bn: "Chb$" + sanitize(typeKey(e)), cn: "Chc", kn: "Chk", bsort: "(Array Int " + ss + ")"}
}

func (vc *VC) chanBuf(st *State, ci chanHeaps, ref string) Term {
	h := vc.heapGet(st, ci.bn, ci.bsort, types.NewSlice(ci.E))
	return Term{S: sel(h.S, ref), T: types.NewSlice(ci.E), Sort: ci.ss}
}
func (vc *VC) chanClosed(st *State, ref string) string {
	h := vc.heapGet(st, "Chc", "(Array Int Bool)", nil)
	return sel(h.S, ref)
}
func (vc *VC) chanCap(st *State, ref string) string {
	h := vc.heapGet(st, "Chk", "(Array Int Int)", nil)
	return sel(h.S, ref)
}
