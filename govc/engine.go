package main

import (
	"sync/atomic"
	"time"
	"fmt"
	"go/ast"
	"go/token"
	"go/types"
	"os"
	"path/filepath"
	"sort"
	"strings"

	"golang.org/x/tools/go/packages"
)

type FuncInfo struct {
	Pkg   *packages.Package
	Decl  *ast.FuncDecl
	Lit   *ast.FuncLit // closures verified as functions
	Obj   *types.Func
	Key   string
	Sig   *types.Signature
	Outer *FuncInfo
}

func (fi *FuncInfo) Body() *ast.BlockStmt {
	if fi.Lit != nil {
		return fi.Lit.Body
	}
	return fi.Decl.Body
}

func (fi *FuncInfo) FullKey() string { return fi.Pkg.PkgPath + "::" + fi.Key }

type Prog struct {
	replayDeadline time.Time // counterexample search for failed obligations stops after this point
	curProp string // property being checked (scopes which tagged clauses take part)
	u       *Universe
	fset    *token.FileSet
	pkgs    map[string]*packages.Package
	all     map[string]*packages.Package // including deps
	con     *Contracts
	funcs   map[string]*FuncInfo // FullKey -> info
	byObj   map[*types.Func]*FuncInfo
	byLit   map[*ast.FuncLit]*FuncInfo
	repo    string
	specDir string
	seed    int
	assume  []string // assumptions gathered for evidence
}

func LoadProg(repo string, specDirs []string) (*Prog, error) {
	cfg := &packages.Config{
		Mode: packages.NeedName | packages.NeedSyntax | packages.NeedTypes | packages.NeedTypesInfo |
			packages.NeedFiles | packages.NeedImports | packages.NeedDeps | packages.NeedCompiledGoFiles,
		Dir:        repo,
		BuildFlags: []string{"-tags=verif"},
		Env:        append(os.Environ(), "GOFLAGS=-mod=mod", "GOPROXY=off", "GOSUMDB=off", "GOTOOLCHAIN=local"),
	}
	pkgs, err := packages.Load(cfg, "./...")
	if err != nil {
		return nil, err
	}
	p := &Prog{u: NewUniverse(), pkgs: map[string]*packages.Package{}, all: map[string]*packages.Package{},
		con: NewContracts(), funcs: map[string]*FuncInfo{}, byObj: map[*types.Func]*FuncInfo{}, byLit: map[*ast.FuncLit]*FuncInfo{}, repo: repo}
	for _, pk := range pkgs {
		if len(pk.Errors) > 0 {
			return nil, fmt.Errorf("package %s has errors: %v", pk.PkgPath, pk.Errors)
		}
		p.pkgs[pk.PkgPath] = pk
		p.fset = pk.Fset
	}
	packages.Visit(pkgs, nil, func(pk *packages.Package) { p.all[pk.PkgPath] = pk })
	// index functions
	for _, pk := range pkgs {
		for _, f := range pk.Syntax {
			for _, d := range f.Decls {
				fd, ok := d.(*ast.FuncDecl)
				if !ok || fd.Body == nil {
					continue
				}
				obj, _ := pk.TypesInfo.Defs[fd.Name].(*types.Func)
				if obj == nil {
					continue
				}
				key := funcKey(obj)
				fi := &FuncInfo{Pkg: pk, Decl: fd, Obj: obj, Key: key, Sig: obj.Type().(*types.Signature)}
				p.funcs[fi.FullKey()] = fi
				p.byObj[obj] = fi
				// closures
				n := 0
				ast.Inspect(fd.Body, func(nd ast.Node) bool {
					if fl, ok := nd.(*ast.FuncLit); ok {
						n++
						ck := fmt.Sprintf("%s$%d", key, n)
						sig, _ := pk.TypesInfo.TypeOf(fl).(*types.Signature)
						ci := &FuncInfo{Pkg: pk, Lit: fl, Key: ck, Sig: sig, Outer: fi}
						p.funcs[ci.FullKey()] = ci
						p.byLit[fl] = ci
					}
					return true
				})
			}
		}
	}
	// contracts: guarded files in the repo
	for _, pk := range pkgs {
		for _, gf := range pk.GoFiles {
			if strings.HasSuffix(gf, "_verif.go") {
				if err := p.con.Load(gf, pk.PkgPath); err != nil {
					return nil, err
				}
			}
		}
	}
	defer func() {
		for n, d := range p.con.Ghosts {
			if d.IfaceKey {
				ifaceKeyed[n] = true
			}
		}
	}()
	for _, dir := range specDirs {
		p.specDir = dir
		files, _ := filepath.Glob(filepath.Join(dir, "*.gvs"))
		sort.Strings(files)
		for _, f := range files {
			if err := p.con.Load(f, ""); err != nil {
				return nil, err
			}
		}
	}
	return p, nil
}

func funcKey(obj *types.Func) string {
	sig := obj.Type().(*types.Signature)
	if r := sig.Recv(); r != nil {
		t := r.Type()
		if pt, ok := t.(*types.Pointer); ok {
			t = pt.Elem()
		}
		switch n := t.(type) {
		case *types.Named:
			return n.Obj().Name() + "." + obj.Name()
		case *types.Alias:
			return n.Obj().Name() + "." + obj.Name()
		}
		// interface method
		return "?." + obj.Name()
	}
	return obj.Name()
}

// specFor finds the contract of a callee object (function or method, repo or external).
func (p *Prog) specFor(obj *types.Func) *FuncSpec {
	if obj == nil {
		return nil
	}
	obj = obj.Origin()
	pkgPath := ""
	if obj.Pkg() != nil {
		pkgPath = obj.Pkg().Path()
	}
	key := funcKey(obj)
	if strings.HasPrefix(key, "?.") {
		// interface method: find the named interface type declaring it
		sig := obj.Type().(*types.Signature)
		if r := sig.Recv(); r != nil {
			if n, ok := r.Type().(*types.Named); ok {
				key = n.Obj().Name() + "." + obj.Name()
			}
		}
	}
	if s, ok := p.con.Funcs[pkgPath+"::"+key]; ok {
		return s
	}
	// allow short package name for externs (e.g. "strings::HasPrefix")
	if obj.Pkg() != nil {
		if s, ok := p.con.Funcs[obj.Pkg().Name()+"::"+key]; ok {
			return s
		}
	}
	return nil
}

// ---------------------------------------------------------------------------------------
// Obligations

type Obligation struct {
	Name   string
	Kind   string // post pre inv-entry inv-preserve safe-* frame lemma cover ...
	Props  []string
	Func   string
	Text   string // clause text
	Where  string
	Facts  []string
	Goal   string
	Decls  []string // constant declarations
	Cover  bool     // expected sat
	PreFacts []string // cover-call: the facts before the call (an unsatisfiable path before the call is not a vacuity)
	Result *SolveResult
	// replay support
	Inputs   []ReplayInput
	ClauseGo string
	vc       *VC
	st       *State
	Weak     bool // generated in a function that calls something without a contract (havoc abstraction)
	Relaxed  bool // candidate-model search: quantified facts dropped (models are validated by replay only)
}

type ReplayInput struct {
	Name string
	Term Term
}

// ---------------------------------------------------------------------------------------
// State

type deferred struct {
	call *ast.CallExpr
	fn   *Term  // pre-evaluated function value
	args []Term // pre-evaluated arguments
	recv *Term
	pre  bool
}

type aliasOrigin struct {
	write func(st *State, v Term)
}

type State struct {
	vars     map[types.Object]Term
	heap     map[string]Term
	alloc    string
	facts    []string
	defers   []deferred
	ghost    map[string]Term
	fieldWB  []fieldWriteBack // pending write-backs of &x.f call arguments
	alias    map[types.Object]*aliasOrigin
	freshSl  map[types.Object]bool
	rets     []Term
	dead     bool
	cells    map[types.Object]Term
	havocTok string // identifies the last frame-less call this state went through
}

// memAbort is raised by the watchdog in main when the process heap grows beyond its budget (path explosion in the
// counterexample search of a large function): symbolic execution stops with an "unsupported" panic, which the search
// treats as "nothing found" and the main verification as "contract cannot be established".
var memAbort atomic.Bool

func (s *State) clone() *State {
	if memAbort.Load() {
		panic(unsupported("memory budget exhausted"))
	}
	n := &State{alloc: s.alloc}
	n.vars = make(map[types.Object]Term, len(s.vars))
	for k, v := range s.vars {
		n.vars[k] = v
	}
	n.heap = make(map[string]Term, len(s.heap))
	for k, v := range s.heap {
		n.heap[k] = v
	}
	n.facts = append([]string(nil), s.facts...)
	n.defers = append([]deferred(nil), s.defers...)
	n.ghost = make(map[string]Term, len(s.ghost))
	for k, v := range s.ghost {
		n.ghost[k] = v
	}
	n.alias = make(map[types.Object]*aliasOrigin, len(s.alias))
	for k, v := range s.alias {
		n.alias[k] = v
	}
	n.freshSl = make(map[types.Object]bool, len(s.freshSl))
	for k, v := range s.freshSl {
		n.freshSl[k] = v
	}
	n.cells = make(map[types.Object]Term, len(s.cells))
	for k, v := range s.cells {
		n.cells[k] = v
	}
	n.dead = s.dead
	n.havocTok = s.havocTok
	return n
}

func (s *State) assume(f string) {
	if f == "true" || f == "" {
		return
	}
	s.facts = append(s.facts, f)
}

// ---------------------------------------------------------------------------------------
// VC context for one function

type VC struct {
	p           *Prog
	u           *Universe
	fi          *FuncInfo
	spec        *FuncSpec
	info        *types.Info
	pkg         *types.Package
	ts          TSubst
	decls       []string
	declSeen    map[string]bool
	base        []string // facts about entry symbols (valid in every state)
	heap0       map[string]Term
	heapSort    map[string]string
	heapElemT   map[string]types.Type
	obls        []*Obligation
	entry       *State
	counters    map[string]int
	loopN       int
	params      map[string]types.Object // name -> object
	paramTerm   map[string]Term         // entry values
	results     []*types.Var
	resultNames []string
	exits       []*State
	paths       int
	notes       []string
	inputs      []ReplayInput
	closures    map[string]*funcVal
	litResults  map[*ast.FuncLit][]*types.Var
	odSeen      map[string]bool // opaque-define symbols whose axiom is already among the base facts
	callCovered map[string]bool // callees whose contract consistency was probed in this function
	unrollStates int            // states created by the unrolled (counterexample-search) execution
	usedLoops   map[int]bool
	usedSpecs   map[string]bool
	loopOrd     map[ast.Node]int
	targets     []*target
	sinks       []*retSink
	dry         int
	dryExits    []*State
	pure        int
	quiet       int
	usedAnchors map[string]bool
	lazyHeaps   map[string]Term
	bvN         int
	havocKnown  map[string]map[string]bool
	abstracted  []string // callees without contract (abstracted by havoc)
	curProp     string // property being checked ("": all clauses)
	constructing []string // terms of parameters the caller guarantees to be fresh, unshared objects (requires callerfresh(p))
	addrTaken   map[types.Object]bool // locals whose address is taken (kept in a cell from their first assignment)
	boundAssume []string // size bounds assumed by the bounded counterexample search
	unroll      int      // >0: counterexample search mode (loops unrolled, never used for proofs)
}

func (vc *VC) declare(name, sort string) {
	if vc.declSeen[name] {
		return
	}
	vc.declSeen[name] = true
	vc.decls = append(vc.decls, fmt.Sprintf("(declare-fun %s () %s)", name, sort))
}

func (vc *VC) fresh(prefix string, t types.Type) Term {
	s := vc.u.SortOf(t)
	n := vc.u.Fresh(prefix)
	vc.declare(n, s)
	return Term{S: n, T: t, Sort: s}
}

func (vc *VC) freshSort(prefix, sort string) Term {
	n := vc.u.Fresh(prefix)
	vc.declare(n, sort)
	return Term{S: n, Sort: sort}
}

func (vc *VC) typeOf(e ast.Expr) types.Type {
	t := vc.info.TypeOf(e)
	return vc.ts.apply(t)
}

func (vc *VC) pos(n ast.Node) string {
	p := vc.p.fset.Position(n.Pos())
	return fmt.Sprintf("%s:%d", filepath.Base(p.Filename), p.Line)
}

// oblige records an obligation: facts(st) => goal.
func (vc *VC) oblige(st *State, kind, text, where, goal string, props []string) *Obligation {
	if vc.quiet > 0 {
		return nil
	}
	vc.counters[kind]++
	name := fmt.Sprintf("%s/%s/%d", vc.fi.Key, kind, vc.counters[kind])
	if props == nil {
		props = vc.spec.Serves
	}
	o := &Obligation{Name: name, Kind: kind, Props: props, Func: vc.fi.FullKey(), Text: text, Where: where,
		Facts: append([]string(nil), st.facts...), Goal: goal, vc: vc, st: st.clone()}
	if goal == "true" {
		o.Result = &SolveResult{Status: "unsat", Backend: "syntactic", All: map[string]string{}}
	}
	vc.obls = append(vc.obls, o)
	if strings.HasPrefix(kind, "safe-") || strings.HasPrefix(kind, "pre@") || kind == "chan-capacity" || kind == "chan-close" || kind == "immutable" {
		// execution continues only if the check passed
		st.assume(goal)
	}
	return o
}

func (vc *VC) fail(n ast.Node, format string, args ...any) {
	where := ""
	if n != nil {
		where = " at " + vc.pos(n)
	}
	panic(unsupported(fmt.Sprintf(format, args...) + where + " in " + vc.fi.Key))
}

func (vc *VC) addBase(f string) {
	for _, b := range vc.base {
		if b == f {
			return
		}
	}
	vc.base = append(vc.base, f)
}

// litKey names a function literal: "<Outer>$N".
func (vc *VC) litKey(l *ast.FuncLit) string {
	if ci, ok := vc.p.byLit[l]; ok {
		return ci.Key
	}
	return fmt.Sprintf("lit@%d", l.Pos())
}

// sortedPkgs returns the repository packages in a fixed order (shortest path first).
func (p *Prog) sortedPkgs() []*packages.Package {
	var paths []string
	for k := range p.pkgs {
		paths = append(paths, k)
	}
	sort.Slice(paths, func(i, j int) bool {
		if len(paths[i]) != len(paths[j]) {
			return len(paths[i]) < len(paths[j])
		}
		return paths[i] < paths[j]
	})
	out := make([]*packages.Package, len(paths))
	for i, k := range paths {
		out[i] = p.pkgs[k]
	}
	return out
}

// wanted reports whether a clause tagged with props takes part in the current run: untagged clauses always do;
// tagged ones only when checking one of their properties or a property declared to depend on one of them.
// Dropping the other clauses is sound: their obligations belong to (and are discharged in) the runs of their own
// properties, and as assumptions they are simply not used here.
func (vc *VC) wanted(props []string) bool {
	if vc.curProp == "" || len(props) == 0 {
		return true
	}
	if _, scoped := vc.p.con.Deps[vc.curProp]; !scoped {
		// no `depends` declaration for this property: every clause takes part
		return true
	}
	seen := map[string]bool{}
	var close func(p string)
	close = func(p string) {
		if seen[p] {
			return
		}
		seen[p] = true
		for _, d := range vc.p.con.Deps[p] {
			close(d)
		}
	}
	close(vc.curProp)
	for _, p := range props {
		if seen[p] {
			return true
		}
	}
	return false
}
