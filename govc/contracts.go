package main

import (
	"bufio"
	"fmt"
	"go/ast"
	"go/parser"
	"os"
	"path/filepath"
	"regexp"
	"strconv"
	"strings"
)

type Clause struct {
	Kind  string
	Props []string
	Text  string
	Expr  ast.Expr
	Where string // file:line
	Name  string // optional label
}

type LoopSpec struct {
	N       int
	As      string // name bound to the hidden index
	Visited string // name bound to the visited set (map ranges)
	Over    string // name bound to the value of the range expression
	Invs    []*Clause
	Writes  []*Clause
	HasW    bool
}

type FuncSpec struct {
	Pkg       string
	Key       string // "Recv.Name" or "Name" ; closures "Outer$N"
	Kind      string // func | extern | iface
	Serves    []string
	Uses      []string
	Requires  []*Clause
	Ensures   []*Clause
	Promises  []*Clause // assumed at call sites, not proved (listed as trusted)
	Writes    []*Clause
	HasWrites bool
	Keeps     []*Clause // locations a frameless callee leaves unchanged
	Pure      bool
	Trusted   bool // body not verified (listed as assumption)
	Loops     map[int]*LoopSpec
	ParamsRen []string
	Opts      map[string]string
	Where     string
	Asserts   []*Clause // "assert after loop N: e" etc. (Name holds the anchor)
	Panics    *Clause   // allowed panic condition
}

type Define struct {
	Pkg    string
	Name   string
	Params []*ast.Field
	Ret    ast.Expr
	Body   ast.Expr
	Text   string
	Where  string
	Opaque bool // applied through an uninterpreted symbol with a definitional axiom (one symbol per heap state)
}

type Abstract struct {
	Pkg    string
	Name   string
	Params []*ast.Field
	Ret    ast.Expr
	Where  string
}

type GlobalFact struct {
	Kind   string // axiom | lemma
	Name   string
	Pkg    string
	Props  []string
	Text   string
	Expr   ast.Expr
	Where  string
	Using  []string // axioms a lemma may use
	Hidden bool     // only available to functions/lemmas that name it with `uses`
}

type GhostDecl struct {
	Name     string
	Pkg      string
	Type     ast.Expr
	Where    string
	ZeroInit bool // objects allocated later start with the zero ghost value
	IfaceKey bool // keyed by interface payloads (arbitrary integers): frames carry no allocation guard
}

type Contracts struct {
	Bounded   []*BoundedCheck
	Guarded   map[string]string // "Struct.field" -> mutex field
	Deps      map[string][]string // property -> properties whose clauses it may rely on (`depends Cxx: Cyy ...`)
	Monitors  map[string][]*GlobalFact // "Struct.mu" -> invariants over `self`, assumed at acquire, proved at release
	Ghosts    map[string]*GhostDecl
	Funcs     map[string]*FuncSpec // key: pkg + "::" + Key
	Defines   map[string]*Define   // by name (global)
	Abstracts map[string]*Abstract
	Facts     []*GlobalFact
	Files     []string
	Immutable map[string]bool // type keys declared immutable
}

func NewContracts() *Contracts {
	return &Contracts{Deps: map[string][]string{}, Monitors: map[string][]*GlobalFact{}, Guarded: map[string]string{}, Ghosts: map[string]*GhostDecl{}, Funcs: map[string]*FuncSpec{}, Defines: map[string]*Define{}, Abstracts: map[string]*Abstract{}, Immutable: map[string]bool{}}
}

var reProps = regexp.MustCompile(`^\[([A-Za-z0-9, ]+)\]`)

// rewriteImp rewrites "A ==> B" into imp(A, B) at every nesting level.
func rewriteImp(s string) string {
	// process innermost parenthesised groups first by recursion
	var out strings.Builder
	i := 0
	for i < len(s) {
		c := s[i]
		if c == '"' || c == '`' {
			j := i + 1
			for j < len(s) && s[j] != c {
				if s[j] == '\\' && c == '"' {
					j++
				}
				j++
			}
			out.WriteString(s[i:min(j+1, len(s))])
			i = j + 1
			continue
		}
		if c == '\'' {
			j := i + 1
			for j < len(s) && s[j] != '\'' {
				if s[j] == '\\' {
					j++
				}
				j++
			}
			out.WriteString(s[i:min(j+1, len(s))])
			i = j + 1
			continue
		}
		if c == '(' || c == '[' {
			closeC := byte(')')
			if c == '[' {
				closeC = ']'
			}
			d := 0
			j := i
			for j < len(s) {
				if s[j] == c {
					d++
				} else if s[j] == closeC {
					d--
					if d == 0 {
						break
					}
				}
				j++
			}
			inner := s[i+1 : min(j, len(s))]
			// split inner on top-level commas
			parts := splitTop(inner, ',')
			for k := range parts {
				parts[k] = rewriteImp(parts[k])
			}
			out.WriteByte(c)
			out.WriteString(strings.Join(parts, ","))
			if j < len(s) {
				out.WriteByte(closeC)
			}
			i = j + 1
			continue
		}
		out.WriteByte(c)
		i++
	}
	t := out.String()
	// now t has its groups rewritten; split on top-level ==> (right assoc)
	idx := topIndex(t, "==>")
	if idx < 0 {
		return t
	}
	return "imp(" + strings.TrimSpace(t[:idx]) + ", " + rewriteImp(strings.TrimSpace(t[idx+3:])) + ")"
}

func topIndex(s, op string) int {
	d := 0
	for i := 0; i < len(s); i++ {
		switch s[i] {
		case '(', '[', '{':
			d++
		case ')', ']', '}':
			d--
		case '"':
			j := i + 1
			for j < len(s) && s[j] != '"' {
				if s[j] == '\\' {
					j++
				}
				j++
			}
			i = j
		}
		if d == 0 && strings.HasPrefix(s[i:], op) {
			return i
		}
	}
	return -1
}

func splitTop(s string, sep byte) []string {
	var parts []string
	d := 0
	last := 0
	for i := 0; i < len(s); i++ {
		switch s[i] {
		case '(', '[', '{':
			d++
		case ')', ']', '}':
			d--
		case '"':
			j := i + 1
			for j < len(s) && s[j] != '"' {
				if s[j] == '\\' {
					j++
				}
				j++
			}
			i = j
		case '\'':
			j := i + 1
			for j < len(s) && s[j] != '\'' {
				if s[j] == '\\' {
					j++
				}
				j++
			}
			i = j
		default:
			if s[i] == sep && d == 0 {
				parts = append(parts, s[last:i])
				last = i + 1
			}
		}
	}
	parts = append(parts, s[last:])
	return parts
}

func parseSpecExpr(text string) (ast.Expr, error) {
	t := rewriteImp(text)
	e, err := parser.ParseExpr(t)
	if err != nil {
		return nil, fmt.Errorf("cannot parse spec expression %q: %v", text, err)
	}
	return e, nil
}

// readLogicalLines extracts contract lines from a file. In .go files only lines starting
// with //@ count; in .gvs files every line (an optional //@ prefix is stripped; # starts a comment).
func readLogicalLines(path string) ([]string, []int, error) {
	f, err := os.Open(path)
	if err != nil {
		return nil, nil, err
	}
	defer f.Close()
	isGo := strings.HasSuffix(path, ".go")
	var lines []string
	var nums []int
	sc := bufio.NewScanner(f)
	sc.Buffer(make([]byte, 1<<20), 1<<20)
	n := 0
	cont := false
	for sc.Scan() {
		n++
		raw := sc.Text()
		t := strings.TrimSpace(raw)
		if strings.HasPrefix(t, "//@") {
			t = strings.TrimSpace(t[3:])
		} else if isGo {
			cont = false
			continue
		}
		if t == "" || strings.HasPrefix(t, "#") {
			cont = false
			continue
		}
		more := strings.HasSuffix(t, "\\")
		if more {
			t = strings.TrimSpace(strings.TrimSuffix(t, "\\"))
		}
		if cont {
			lines[len(lines)-1] += " " + t
		} else {
			lines = append(lines, t)
			nums = append(nums, n)
		}
		cont = more
	}
	return lines, nums, sc.Err()
}

var reFuncHdr = regexp.MustCompile(`^(func|extern|iface)\s+(?:\(\s*\*?\s*([A-Za-z0-9_.]+)(?:\[[^\]]*\])?\s*\)\s*\.\s*)?([A-Za-z0-9_.$]+)\s*$`)

func (c *Contracts) Load(path string, defaultPkg string) error {
	lines, nums, err := readLogicalLines(path)
	if err != nil {
		return err
	}
	c.Files = append(c.Files, path)
	pkg := defaultPkg
	var cur *FuncSpec
	var curLoop *LoopSpec
	for i, ln := range lines {
		where := fmt.Sprintf("%s:%d", filepath.Base(path), nums[i])
		word, rest := splitWord(ln)
		fail := func(e error) error { return fmt.Errorf("%s: %v", where, e) }
		switch word {
		case "package":
			pkg = strings.TrimSpace(rest)
			cur = nil
		case "immutable":
			for _, t := range strings.Fields(strings.ReplaceAll(rest, ",", " ")) {
				c.Immutable[t] = true
			}
		case "define", "odefine":
			d, err := parseDefine(rest)
			if err != nil {
				return fail(err)
			}
			d.Pkg, d.Where = pkg, where
			d.Opaque = word == "odefine"
			if _, dup := c.Defines[d.Name]; dup {
				return fail(fmt.Errorf("duplicate define %s", d.Name))
			}
			c.Defines[d.Name] = d
			cur = nil
		case "bounded":
			props, r2 := takeProps(rest)
			bc, err := parseBounded(r2, pkg, where, props)
			if err != nil {
				return fail(err)
			}
			c.Bounded = append(c.Bounded, bc)
			cur = nil
		case "guarded":
			// guarded Struct.field by mu
			fs := strings.Fields(rest)
			if len(fs) != 3 || fs[1] != "by" {
				return fail(fmt.Errorf("expected: guarded Struct.field by mutexField"))
			}
			c.Guarded[fs[0]] = fs[2]
			cur = nil
		case "ghost":
			name, ty := splitWord(rest)
			gd := &GhostDecl{Name: name, Pkg: pkg, Where: where}
			for {
				ty = strings.TrimSpace(ty)
				if strings.HasSuffix(ty, " zeroinit") {
					gd.ZeroInit = true
					ty = strings.TrimSuffix(ty, " zeroinit")
				} else if strings.HasSuffix(ty, " ifacekey") {
					gd.IfaceKey = true
					ty = strings.TrimSuffix(ty, " ifacekey")
				} else {
					break
				}
			}
			te, err := parser.ParseExpr(ty)
			if err != nil {
				return fail(fmt.Errorf("bad ghost type %q: %v", ty, err))
			}
			gd.Type = te
			c.Ghosts[name] = gd
			cur = nil
		case "abstract":
			a, err := parseAbstract(rest)
			if err != nil {
				return fail(err)
			}
			a.Pkg, a.Where = pkg, where
			c.Abstracts[a.Name] = a
			cur = nil
		case "depends":
			// depends Cxx: Cyy Czz — when checking Cxx, clauses tagged only with other properties are ignored
			// unless those properties are listed here
			name, body, ok := strings.Cut(rest, ":")
			if !ok {
				return fail(fmt.Errorf("expected 'depends Cxx: Cyy ...'"))
			}
			if c.Deps[strings.TrimSpace(name)] == nil {
				c.Deps[strings.TrimSpace(name)] = []string{}
			}
			c.Deps[strings.TrimSpace(name)] = append(c.Deps[strings.TrimSpace(name)], strings.Fields(body)...)
			cur = nil
		case "monitor":
			// monitor[Cxx] Struct.mu: invariant(self)
			props, r2 := takeProps(rest)
			name, body, ok := strings.Cut(r2, ":")
			if !ok {
				return fail(fmt.Errorf("expected 'monitor Struct.mu: expr'"))
			}
			e, err := parseSpecExpr(strings.TrimSpace(body))
			if err != nil {
				return fail(err)
			}
			c.Monitors[strings.TrimSpace(name)] = append(c.Monitors[strings.TrimSpace(name)], &GlobalFact{Kind: "monitor", Name: strings.TrimSpace(name), Pkg: pkg, Props: props, Text: strings.TrimSpace(body), Expr: e, Where: where})
			cur = nil
		case "axiom", "lemma":
			props, r2 := takeProps(rest)
			name, body, ok := strings.Cut(r2, ":")
			if !ok {
				return fail(fmt.Errorf("expected 'name: expr'"))
			}
			e, err := parseSpecExpr(strings.TrimSpace(body))
			if err != nil {
				return fail(err)
			}
			gf := &GlobalFact{Kind: word, Name: strings.TrimSpace(name), Pkg: pkg, Props: props, Text: strings.TrimSpace(body), Expr: e, Where: where}
			if len(props) == 1 && props[0] == "hidden" {
				gf.Hidden = true
				gf.Props = nil
			}
			c.Facts = append(c.Facts, gf)
			cur = nil
		case "func", "extern", "iface":
			m := reFuncHdr.FindStringSubmatch(ln)
			if m == nil {
				return fail(fmt.Errorf("bad function header %q", ln))
			}
			key := m[3]
			fpkg := pkg
			if m[2] != "" {
				recv := m[2]
				if word != "func" {
					// extern receivers are written pkg.Type
					if idx := strings.LastIndex(recv, "."); idx >= 0 {
						fpkg = recv[:idx]
						recv = recv[idx+1:]
					}
				}
				key = recv + "." + key
			} else if word != "func" {
				if idx := strings.LastIndex(key, "."); idx >= 0 {
					fpkg = key[:idx]
					key = key[idx+1:]
				}
			}
			cur = &FuncSpec{Pkg: fpkg, Key: key, Kind: word, Loops: map[int]*LoopSpec{}, Opts: map[string]string{}, Where: where}
			curLoop = nil
			k := fpkg + "::" + key
			if _, dup := c.Funcs[k]; dup {
				return fail(fmt.Errorf("duplicate contract for %s", k))
			}
			c.Funcs[k] = cur
		default:
			if cur == nil {
				return fail(fmt.Errorf("clause %q outside a function block", word))
			}
			switch word {
			case "uses":
				cur.Uses = append(cur.Uses, strings.Fields(strings.ReplaceAll(rest, ",", " "))...)
			case "serves":
				cur.Serves = append(cur.Serves, strings.Fields(strings.ReplaceAll(rest, ",", " "))...)
			case "pure":
				cur.Pure = true
			case "trusted":
				cur.Trusted = true
				cur.Opts["trusted_reason"] = rest
			case "params":
				r := strings.Trim(strings.TrimSpace(rest), "()")
				for _, p := range strings.Split(r, ",") {
					cur.ParamsRen = append(cur.ParamsRen, strings.TrimSpace(p))
				}
			case "opt":
				k, v, _ := strings.Cut(rest, "=")
				cur.Opts[strings.TrimSpace(k)] = strings.TrimSpace(v)
			case "loop":
				fs := strings.Fields(rest)
				if len(fs) == 0 {
					return fail(fmt.Errorf("loop needs an ordinal"))
				}
				n, err := strconv.Atoi(fs[0])
				if err != nil {
					return fail(err)
				}
				curLoop = &LoopSpec{N: n}
				for j := 1; j+1 < len(fs); j += 2 {
					switch fs[j] {
					case "as":
						curLoop.As = fs[j+1]
					case "visited":
						curLoop.Visited = fs[j+1]
					case "over":
						curLoop.Over = fs[j+1]
					default:
						return fail(fmt.Errorf("unknown loop option %q", fs[j]))
					}
				}
				cur.Loops[n] = curLoop
			case "requires", "ensures", "promises", "invariant", "assert", "assume", "panics":
				props, r2 := takeBracketProps(ln[len(word):])
				name := ""
				if word == "assert" || word == "assume" {
					// "assert <anchor>: expr"
					if a, b, ok := cutAnchor(r2); ok {
						name, r2 = a, b
					}
				}
				e, err := parseSpecExpr(strings.TrimSpace(r2))
				if err != nil {
					return fail(err)
				}
				cl := &Clause{Kind: word, Props: props, Text: strings.TrimSpace(r2), Expr: e, Where: where, Name: name}
				switch word {
				case "requires":
					cur.Requires = append(cur.Requires, cl)
				case "ensures":
					cur.Ensures = append(cur.Ensures, cl)
				case "promises":
					cur.Promises = append(cur.Promises, cl)
				case "invariant":
					if curLoop == nil {
						return fail(fmt.Errorf("invariant outside loop"))
					}
					curLoop.Invs = append(curLoop.Invs, cl)
				case "assert", "assume":
					cur.Asserts = append(cur.Asserts, cl)
				case "panics":
					cur.Panics = cl
				}
			case "keeps":
				// frameless callee (everything may change) except the listed locations: used for interface methods whose
				// implementations are unknown but cannot reach a per-session object's ghost state
				for _, part := range splitTop(rest, ',') {
					part = strings.TrimSpace(part)
					if part == "" {
						continue
					}
					e, err := parseSpecExpr(part)
					if err != nil {
						return fail(err)
					}
					cur.Keeps = append(cur.Keeps, &Clause{Kind: "keeps", Text: part, Expr: e, Where: where})
				}
			case "writes", "lwrites":
				var cls []*Clause
				if strings.TrimSpace(rest) != "nothing" {
					for _, part := range splitTop(rest, ',') {
						part = strings.TrimSpace(part)
						if part == "" {
							continue
						}
						e, err := parseSpecExpr(part)
						if err != nil {
							return fail(err)
						}
						cls = append(cls, &Clause{Kind: "writes", Text: part, Expr: e, Where: where})
					}
				}
				if word == "writes" {
					cur.Writes = append(cur.Writes, cls...)
					cur.HasWrites = true
				} else {
					if curLoop == nil {
						return fail(fmt.Errorf("lwrites outside loop"))
					}
					curLoop.Writes = append(curLoop.Writes, cls...)
					curLoop.HasW = true
				}
			default:
				return fail(fmt.Errorf("unknown clause %q", word))
			}
		}
	}
	return nil
}

func cutAnchor(s string) (anchor, rest string, ok bool) {
	s = strings.TrimSpace(s)
	if !strings.HasPrefix(s, "@") {
		return "", s, false
	}
	i := strings.Index(s, ":")
	if i < 0 {
		return "", s, false
	}
	return strings.TrimSpace(s[1:i]), strings.TrimSpace(s[i+1:]), true
}

func splitWord(s string) (string, string) {
	s = strings.TrimSpace(s)
	for i, r := range s {
		if !(r == '_' || r >= 'a' && r <= 'z' || r >= 'A' && r <= 'Z') {
			return s[:i], strings.TrimSpace(s[i:])
		}
	}
	return s, ""
}

func takeBracketProps(s string) ([]string, string) {
	s = strings.TrimSpace(s)
	if m := reProps.FindStringSubmatch(s); m != nil {
		ps := strings.Fields(strings.ReplaceAll(m[1], ",", " "))
		return ps, strings.TrimSpace(s[len(m[0]):])
	}
	return nil, s
}

func takeProps(s string) ([]string, string) { return takeBracketProps(s) }

// parseDefine parses "name(p T, q U) R = body".
func parseDefine(s string) (*Define, error) {
	idx := topIndex(s, "=")
	// find the first top-level '=' that is not part of '==' etc.
	for idx >= 0 {
		if idx+1 < len(s) && s[idx+1] == '=' || idx > 0 && strings.ContainsRune("=!<>", rune(s[idx-1])) {
			n := topIndex(s[idx+2:], "=")
			if n < 0 {
				idx = -1
			} else {
				idx = idx + 2 + n
			}
			continue
		}
		break
	}
	if idx < 0 {
		return nil, fmt.Errorf("define needs '='")
	}
	hdr, body := strings.TrimSpace(s[:idx]), strings.TrimSpace(s[idx+1:])
	name, ft, err := parseHeader(hdr)
	if err != nil {
		return nil, err
	}
	e, err := parseSpecExpr(body)
	if err != nil {
		return nil, err
	}
	d := &Define{Name: name, Body: e, Text: body}
	if ft.Params != nil {
		d.Params = ft.Params.List
	}
	if ft.Results != nil && len(ft.Results.List) > 0 {
		d.Ret = ft.Results.List[0].Type
	}
	return d, nil
}

func parseAbstract(s string) (*Abstract, error) {
	name, ft, err := parseHeader(strings.TrimSpace(s))
	if err != nil {
		return nil, err
	}
	a := &Abstract{Name: name}
	if ft.Params != nil {
		a.Params = ft.Params.List
	}
	if ft.Results != nil && len(ft.Results.List) > 0 {
		a.Ret = ft.Results.List[0].Type
	}
	return a, nil
}

func parseHeader(hdr string) (string, *ast.FuncType, error) {
	p := strings.Index(hdr, "(")
	if p < 0 {
		return "", nil, fmt.Errorf("bad header %q", hdr)
	}
	name := strings.TrimSpace(hdr[:p])
	e, err := parser.ParseExpr("func" + hdr[p:] + " {}")
	if err != nil {
		return "", nil, fmt.Errorf("bad header %q: %v", hdr, err)
	}
	fl, ok := e.(*ast.FuncLit)
	if !ok {
		return "", nil, fmt.Errorf("bad header %q", hdr)
	}
	return name, fl.Type, nil
}
