package main

import (
	"crypto/sha1"
	"runtime/debug"
	"os"
	"regexp"
	"fmt"
	"go/ast"
	"go/constant"
	"go/token"
	"go/types"
	"sort"
	"strconv"
	"strings"
)

type SpecEnv struct {
	vc       *VC
	st       *State
	old      *State
	vars     map[string]Term
	pkg      *types.Package
	depth    int
	allocOld string
	lentry   *State
	oldVars  map[string]Term // entry values of mutable parameters (used inside old())
	insideOpaque map[string]bool // opaque defines whose body is being evaluated
}

func (e *SpecEnv) with(vars map[string]Term) *SpecEnv {
	n := *e
	n.vars = make(map[string]Term, len(e.vars)+len(vars))
	for k, v := range e.vars {
		n.vars[k] = v
	}
	for k, v := range vars {
		n.vars[k] = v
	}
	return &n
}

func (e *SpecEnv) inOld() *SpecEnv {
	n := *e
	if e.old != nil {
		n.st = e.old
	}
	if len(e.oldVars) > 0 {
		n.vars = make(map[string]Term, len(e.vars))
		for k, v := range e.vars {
			n.vars[k] = v
		}
		for k, v := range e.oldVars {
			n.vars[k] = v
		}
	}
	return &n
}

func (vc *VC) specFail(x ast.Node, format string, args ...any) {
	panic(unsupported("spec: " + fmt.Sprintf(format, args...) + " in contract of " + vc.fi.Key))
}

// findPackage resolves a package name as seen from pkg.
func (vc *VC) findPackage(from *types.Package, name string) *types.Package {
	if from != nil {
		for _, im := range from.Imports() {
			if im.Name() == name {
				return im
			}
		}
	}
	// deterministic fallback: packages imported by repository packages first (sorted), then any (sorted)
	var cands []string
	for path, pk := range vc.p.all {
		if pk.Types != nil && pk.Types.Name() == name {
			cands = append(cands, path)
		}
	}
	sort.Strings(cands)
	for _, path := range cands {
		if _, isRepo := vc.p.pkgs[path]; !isRepo {
			return vc.p.all[path].Types
		}
	}
	if len(cands) > 0 {
		return vc.p.all[cands[0]].Types
	}
	return nil
}

// resolveType turns a type expression used in specs into a Go type. Ghost types:
// set[K] -> ghost array K->Bool ; gmap[K]V -> ghost array.
type ghostType struct {
	K, V types.Type
}

func (vc *VC) resolveType(x ast.Expr, pkg *types.Package) (types.Type, *ghostType) {
	switch t := x.(type) {
	case *ast.Ident:
		if pkg != nil {
			if o := pkg.Scope().Lookup(t.Name); o != nil {
				if tn, ok := o.(*types.TypeName); ok {
					return tn.Type(), nil
				}
			}
		}
		if o := types.Universe.Lookup(t.Name); o != nil {
			if tn, ok := o.(*types.TypeName); ok {
				return tn.Type(), nil
			}
		}
		// type parameters of the verified function
		for tp, r := range vc.ts {
			if tp.Obj().Name() == t.Name {
				return r, nil
			}
		}
		// search all repo packages
		for _, pk := range vc.p.sortedPkgs() {
			if o := pk.Types.Scope().Lookup(t.Name); o != nil {
				if tn, ok := o.(*types.TypeName); ok {
					return tn.Type(), nil
				}
			}
		}
	case *ast.StarExpr:
		et, _ := vc.resolveType(t.X, pkg)
		if et != nil {
			return types.NewPointer(et), nil
		}
	case *ast.ParenExpr:
		return vc.resolveType(t.X, pkg)
	case *ast.ArrayType:
		et, _ := vc.resolveType(t.Elt, pkg)
		if et == nil {
			break
		}
		if t.Len == nil {
			return types.NewSlice(et), nil
		}
		if bl, ok := t.Len.(*ast.BasicLit); ok {
			n, _ := strconv.ParseInt(bl.Value, 10, 64)
			return types.NewArray(et, n), nil
		}
	case *ast.MapType:
		kt, _ := vc.resolveType(t.Key, pkg)
		vt, _ := vc.resolveType(t.Value, pkg)
		if kt != nil && vt != nil {
			return types.NewMap(kt, vt), nil
		}
	case *ast.ChanType:
		et, _ := vc.resolveType(t.Value, pkg)
		if et != nil {
			return types.NewChan(types.SendRecv, et), nil
		}
	case *ast.InterfaceType:
		return types.NewInterfaceType(nil, nil), nil
	case *ast.SelectorExpr:
		if id, ok := t.X.(*ast.Ident); ok {
			if p := vc.findPackage(pkg, id.Name); p != nil {
				if o := p.Scope().Lookup(t.Sel.Name); o != nil {
					if tn, ok := o.(*types.TypeName); ok {
						return tn.Type(), nil
					}
				}
			}
		}
	case *ast.IndexListExpr:
		// generic instantiation Name[T1, T2]
		bt, _ := vc.resolveType(t.X, pkg)
		var targs []types.Type
		for _, ix := range t.Indices {
			at, _ := vc.resolveType(ix, pkg)
			targs = append(targs, at)
		}
		if n, ok := bt.(*types.Named); ok {
			if inst, err := types.Instantiate(nil, n, targs, false); err == nil {
				return inst, nil
			}
		}
	case *ast.IndexExpr:
		if id, ok := t.X.(*ast.Ident); ok && id.Name == "set" {
			kt, _ := vc.resolveType(t.Index, pkg)
			if kt != nil {
				return nil, &ghostType{K: kt, V: types.Typ[types.Bool]}
			}
		}
		// gmap[K]V is written gmap[K][V]? no: use IndexExpr(IndexExpr(gmap,K),V)
		if inner, ok := t.X.(*ast.IndexExpr); ok {
			if id, ok := inner.X.(*ast.Ident); ok && id.Name == "gmap" {
				kt, _ := vc.resolveType(inner.Index, pkg)
				vt, _ := vc.resolveType(t.Index, pkg)
				if kt != nil && vt != nil {
					return nil, &ghostType{K: kt, V: vt}
				}
			}
		}
		// generic instantiation Name[T]
		bt, _ := vc.resolveType(t.X, pkg)
		at, _ := vc.resolveType(t.Index, pkg)
		if bt != nil && at != nil {
			if n, ok := bt.(*types.Named); ok {
				inst, err := types.Instantiate(nil, n, []types.Type{at}, false)
				if err == nil {
					return inst, nil
				}
			}
		}
	}
	vc.specFail(x, "cannot resolve type %s", exprString(x))
	return nil, nil
}

func exprString(x ast.Expr) string {
	return types.ExprString(x)
}

func (vc *VC) ghostArrayTerm(s string, g *ghostType) Term {
	ks, vs := vc.u.SortOf(g.K), vc.u.SortOf(g.V)
	return Term{S: s, Sort: "(Array " + ks + " " + vs + ")", KT: g.K, VT: g.V, KS: ks, VS: vs}
}

func (e *SpecEnv) evalBool(x ast.Expr) string {
	t := e.eval(x)
	if t.Sort != "Bool" {
		e.vc.specFail(x, "expected boolean: %s (sort %s)", exprString(x), t.Sort)
	}
	return t.S
}

func (e *SpecEnv) eval(x ast.Expr) Term {
	vc := e.vc
	switch x := x.(type) {
	case *ast.ParenExpr:
		return e.eval(x.X)
	case *ast.BasicLit:
		switch x.Kind {
		case token.INT:
			v := constant.MakeFromLiteral(x.Value, token.INT, 0)
			return vc.constTerm(v, types.Typ[types.Int])
		case token.STRING:
			v := constant.MakeFromLiteral(x.Value, token.STRING, 0)
			return vc.constTerm(v, types.Typ[types.String])
		case token.CHAR:
			v := constant.MakeFromLiteral(x.Value, token.CHAR, 0)
			return vc.constTerm(constant.ToInt(v), types.Typ[types.Int32])
		}
	case *ast.Ident:
		return e.evalIdent(x)
	case *ast.SelectorExpr:
		// package-qualified constant?
		if id, ok := x.X.(*ast.Ident); ok {
			if _, bound := e.vars[id.Name]; !bound {
				if _, g := e.st.ghost[id.Name]; !g {
					if p := vc.findPackage(e.pkg, id.Name); p != nil && e.lookupLocal(id.Name) == nil {
						if o := p.Scope().Lookup(x.Sel.Name); o != nil {
							return e.objTerm(o, x)
						}
					}
				}
			}
		}
		base := e.eval(x.X)
		if f, ok := vc.selectField(e.st, base, x.Sel.Name); ok {
			return f
		}
		// embedded field promotion through one level
		if t, ok := e.promoted(base, x.Sel.Name); ok {
			return t
		}
		vc.specFail(x, "no field %s in %v", x.Sel.Name, base.T)
	case *ast.StarExpr:
		p := e.eval(x.X)
		pt, ok := under(p.T).(*types.Pointer)
		if !ok {
			vc.specFail(x, "deref of non-pointer %s", exprString(x))
		}
		return vc.loadDeref(e.st, vc.ts.apply(pt.Elem()), p.S)
	case *ast.UnaryExpr:
		v := e.eval(x.X)
		switch x.Op {
		case token.NOT:
			return boolTerm(not(v.S))
		case token.SUB:
			return vc.mk("(- "+v.S+")", v.T)
		case token.ADD:
			return v
		}
	case *ast.BinaryExpr:
		switch x.Op {
		case token.LAND:
			return boolTerm(and(e.evalBool(x.X), e.evalBool(x.Y)))
		case token.LOR:
			return boolTerm(or(e.evalBool(x.X), e.evalBool(x.Y)))
		}
		a, b := e.eval(x.X), e.eval(x.Y)
		if s, ok := vc.compare(x.Op, a, b); ok {
			return boolTerm(s)
		}
		t := a.T
		if t == nil {
			t = b.T
		}
		if r, ok := vc.binArith(x.Op, a, b, t); ok {
			return r
		}
	case *ast.IndexExpr:
		base := e.eval(x.X)
		idx := e.eval(x.Index)
		if mt, ok := under(base.T).(*types.Map); ok {
			idx = vc.coerce(idx, vc.ts.apply(mt.Key()))
		}
		return vc.indexValue(e.st, base, idx)
	case *ast.SliceExpr:
		base := e.eval(x.X)
		var lo, hi Term
		if x.Low != nil {
			lo = e.eval(x.Low)
		} else {
			lo = intTerm("0")
		}
		if x.High != nil {
			hi = e.eval(x.High)
		} else {
			hi = vc.lenOf(e.st, base)
		}
		return vc.sliceOf(e.st, base, lo, hi)
	case *ast.CallExpr:
		return e.evalCall(x)
	case *ast.CompositeLit:
		// struct literal of a named struct type with keyed fields (used for map keys in specs)
		t, _ := vc.resolveType(x.Type, e.pkg)
		if stt, ok := under(t).(*types.Struct); ok {
			v := vc.u.Zero(t)
			for i, el := range x.Elts {
				if kv, ok := el.(*ast.KeyValueExpr); ok {
					name := kv.Key.(*ast.Ident).Name
					for j := 0; j < stt.NumFields(); j++ {
						if stt.Field(j).Name() == name {
							v = vc.structUpdate(v, j, vc.coerce(e.eval(kv.Value), vc.ts.apply(stt.Field(j).Type())))
						}
					}
				} else {
					v = vc.structUpdate(v, i, vc.coerce(e.eval(el), vc.ts.apply(stt.Field(i).Type())))
				}
			}
			return v
		}
		if at, ok := under(t).(*types.Array); ok {
			v := vc.u.Zero(t)
			for i, el := range x.Elts {
				v = vc.arrayUpdate(v, int64(i), vc.coerce(e.eval(el), at.Elem()))
			}
			return v
		}
	}
	vc.specFail(x, "unsupported expression %s (%T)", exprString(x), x)
	return Term{}
}

func (e *SpecEnv) promoted(base Term, name string) (Term, bool) {
	vc := e.vc
	t := base.T
	if p, ok := under(t).(*types.Pointer); ok {
		t = p.Elem()
	}
	stt, ok := under(t).(*types.Struct)
	if !ok {
		return Term{}, false
	}
	for i := 0; i < stt.NumFields(); i++ {
		if stt.Field(i).Embedded() {
			inner, ok := vc.selectField(e.st, base, stt.Field(i).Name())
			if !ok {
				continue
			}
			if f, ok := vc.selectField(e.st, inner, name); ok {
				return f, true
			}
		}
	}
	return Term{}, false
}

func (e *SpecEnv) lookupLocal(name string) *Term {
	if t, ok := e.vars[name]; ok {
		return &t
	}
	if t, ok := e.st.ghost[name]; ok {
		return &t
	}
	return nil
}

func (e *SpecEnv) evalIdent(x *ast.Ident) Term {
	vc := e.vc
	if t := e.lookupLocal(x.Name); t != nil {
		return *t
	}
	switch x.Name {
	case "true":
		return boolTerm("true")
	case "false":
		return boolTerm("false")
	case "nil":
		return Term{S: "0", T: types.Typ[types.UntypedNil], Sort: "Int"}
	}
	// local program variables visible by name (for loop invariants / asserts)
	if o := vc.lookupProgramVar(e.st, x.Name); o != nil {
		if cell, ok := e.st.cells[o]; ok {
			// address-taken local: its current value lives in the cell
			pt := under(cell.T).(*types.Pointer)
			return vc.loadDeref(e.st, vc.ts.apply(pt.Elem()), cell.S)
		}
		return e.st.vars[o]
	}
	if e.pkg != nil {
		if o := e.pkg.Scope().Lookup(x.Name); o != nil {
			return e.objTerm(o, x)
		}
	}
	for _, pk := range vc.p.sortedPkgs() {
		if o := pk.Types.Scope().Lookup(x.Name); o != nil {
			if _, ok := o.(*types.Const); ok {
				return e.objTerm(o, x)
			}
		}
	}
	if d, ok := vc.p.con.Defines[x.Name]; ok && len(d.Params) == 0 {
		return e.expandDefine(d, nil)
	}
	if os.Getenv("GOVC_DEBUG_IDENT") != "" {
		debug.PrintStack()
		for o := range e.st.vars {
			fmt.Fprintln(os.Stderr, "VAR", o.Name(), o.Pos())
		}
	}
	vc.specFail(x, "unknown identifier %s", x.Name)
	return Term{}
}

func (e *SpecEnv) objTerm(o types.Object, x ast.Expr) Term {
	vc := e.vc
	switch o := o.(type) {
	case *types.Const:
		return vc.constTerm(o.Val(), o.Type())
	case *types.Var:
		return vc.globalVar(o)
	case *types.Nil:
		return Term{S: "0", T: types.Typ[types.UntypedNil], Sort: "Int"}
	}
	vc.specFail(x, "cannot use %s in a spec", o.Name())
	return Term{}
}

// globalVar: package-level variables are modelled as immutable symbolic constants.
func (vc *VC) globalVar(o *types.Var) Term {
	name := "g$" + sanitize(o.Pkg().Name()+"."+o.Name())
	t := vc.ts.apply(o.Type())
	if !vc.declSeen[name] {
		vc.declare(name, vc.u.SortOf(t))
		// type invariant of value-like globals (integers, strings, slices of those): lengths are non-negative, bytes are bytes
		ok := false
		switch tt := under(t).(type) {
		case *types.Basic:
			ok = true
		case *types.Slice:
			_, ok = under(tt.Elem()).(*types.Basic)
		}
		if ok {
			if f := vc.u.WF(name, t, "alloc@0"); f != "true" {
				vc.base = append(vc.base, f)
			}
		}
	}
	return vc.mk(name, t)
}

func (vc *VC) lookupProgramVar(st *State, name string) types.Object {
	var best types.Object
	for o := range st.vars {
		if o.Name() == name {
			if best == nil || o.Pos() > best.Pos() {
				best = o
			}
		}
	}
	return best
}

func (e *SpecEnv) evalCall(x *ast.CallExpr) Term {
	vc := e.vc
	// method-call syntax on contract functions
	if se, ok := x.Fun.(*ast.SelectorExpr); ok {
		if id, ok := se.X.(*ast.Ident); !ok || e.lookupLocal(id.Name) != nil || vc.findPackage(e.pkg, id.Name) == nil || vc.lookupProgramVar(e.st, id.Name) != nil {
			recv := e.eval(se.X)
			if recv.T != nil {
				obj, _, _ := types.LookupFieldOrMethod(recv.T, true, e.pkg, se.Sel.Name)
				if fn, ok := obj.(*types.Func); ok {
					args := e.evalArgs(x.Args)
					return e.expandPure(fn, &recv, args, x)
				}
			}
			vc.specFail(x, "cannot resolve method %s", exprString(x.Fun))
		} else {
			// pkg.Func(...)
			p := vc.findPackage(e.pkg, id.Name)
			if o := p.Scope().Lookup(se.Sel.Name); o != nil {
				if fn, ok := o.(*types.Func); ok {
					return e.expandPure(fn, nil, e.evalArgs(x.Args), x)
				}
				if tn, ok := o.(*types.TypeName); ok && len(x.Args) == 1 {
					return e.convert(e.eval(x.Args[0]), tn.Type())
				}
			}
			vc.specFail(x, "cannot resolve %s", exprString(x.Fun))
		}
	}
	if inner, ok := x.Fun.(*ast.CallExpr); ok {
		// application of a function-valued spec term: f(a)(b)
		f := e.eval(inner)
		if _, isSig := under(f.T).(*types.Signature); isSig {
			return e.applyFuncTerm(f, e.evalArgs(x.Args), x)
		}
	}
	id, ok := x.Fun.(*ast.Ident)
	if !ok {
		// conversion with a composite type expression, e.g. []byte(x)
		if t, _ := vc.resolveType(x.Fun, e.pkg); t != nil && len(x.Args) == 1 {
			return e.convert(e.eval(x.Args[0]), t)
		}
		vc.specFail(x, "unsupported call %s", exprString(x))
	}
	arg := func(i int) ast.Expr {
		if i >= len(x.Args) {
			vc.specFail(x, "%s: missing argument %d", id.Name, i)
		}
		return x.Args[i]
	}
	// call of a function-typed value bound in the environment (predicate parameters)
	if fv := e.lookupLocal(id.Name); fv != nil {
		if _, ok := under(fv.T).(*types.Signature); ok {
			return e.applyFuncTerm(*fv, e.evalArgs(x.Args), x)
		}
	}
	switch id.Name {
	case "g":
		// g(name, ref): value of a declared ghost heap at ref
		name := arg(0).(*ast.Ident).Name
		ref := e.eval(arg(1))
		return vc.ghostLoad(e.st, name, ref.S, e.pkg)
	case "tokval":
		ch := e.eval(arg(0))
		et := vc.ts.apply(under(ch.T).(*types.Chan).Elem())
		_, val, _, _ := vc.tokenHeaps(e.st, et)
		return vc.mk(sel(val.S, ch.S), et)
	case "tokheld":
		ch := e.eval(arg(0))
		h := vc.heapGet(e.st, "G$tokheld", "(Array Int Int)", nil)
		return boolTerm(eq(sel(h.S, ch.S), "1"))
	case "held":
		hn, ref := e.lockTarget(arg(0))
		h := vc.heapGet(e.st, hn, "(Array Int Int)", nil)
		return intTerm(sel(h.S, ref))
	case "wf":
		// wf(x): x is a well-formed value of its Go type (machine-integer ranges, allocated references)
		v := e.eval(arg(0))
		return boolTerm(vc.u.WF(v.S, v.T, e.st.alloc))
	case "refof":
		v := e.eval(arg(0))
		if v.Sort == "Iface" {
			return intTerm("(ipay " + v.S + ")")
		}
		return intTerm(v.S)
	case "islit":
		// islit(f, N): f is the N-th function literal of the function under contract
		f := e.eval(arg(0))
		n, _ := strconv.Atoi(arg(1).(*ast.BasicLit).Value)
		outer := vc.fi
		for outer.Outer != nil {
			outer = outer.Outer
		}
		name := "lit$" + sanitize(fmt.Sprintf("%s$%d", outer.Key, n))
		vc.declare(name, "Int")
		return boolTerm(eq(f.S, name))
	case "lold":
		n := *e
		if e.lentry != nil {
			n.st = e.lentry
		}
		return n.eval(arg(0))
	case "old":
		return e.inOld().eval(arg(0))
	case "imp":
		return boolTerm(imp(e.evalBool(arg(0)), e.evalBool(arg(1))))
	case "iff":
		return boolTerm(eq(e.evalBool(arg(0)), e.evalBool(arg(1))))
	case "ite":
		c := e.evalBool(arg(0))
		a, b := e.eval(arg(1)), e.eval(arg(2))
		if isUntypedNil(a.T) {
			a = vc.coerce(a, b.T)
		}
		if isUntypedNil(b.T) {
			b = vc.coerce(b, a.T)
		}
		r := a
		r.S = ite(c, a.S, b.S)
		return r
	case "len":
		return vc.lenOf(e.st, e.eval(arg(0)))
	case "forall", "exists":
		name := arg(0).(*ast.Ident).Name
		lo, hi := e.eval(arg(1)), e.eval(arg(2))
		if vc.unroll > 0 {
			// counterexample-search mode: bounded ranges are expanded (exact for ranges of at most K elements;
			// the size bound is recorded as an assumption of the search)
			K := vc.unroll + 1
			vc.boundAssume = append(vc.boundAssume, fmt.Sprintf("(<= (- %s %s) %d)", hi.S, lo.S, K))
			var parts []string
			for d := 0; d < K; d++ {
				iv := fmt.Sprintf("(+ %s %d)", lo.S, d)
				body := e.with(map[string]Term{name: intTerm(iv)}).evalBool(arg(3))
				in := fmt.Sprintf("(< %s %s)", iv, hi.S)
				if id.Name == "forall" {
					parts = append(parts, imp(in, body))
				} else {
					parts = append(parts, and(in, body))
				}
			}
			if id.Name == "forall" {
				return boolTerm(and(parts...))
			}
			return boolTerm(or(parts...))
		}
		vc.bvN++
		bv := fmt.Sprintf("%s!q%d", sanitize(name), vc.bvN)
		body := e.with(map[string]Term{name: intTerm(bv)}).evalBool(arg(3))
		rng := fmt.Sprintf("(and (<= %s %s) (< %s %s))", lo.S, bv, bv, hi.S)
		if id.Name == "forall" {
			return boolTerm(fmt.Sprintf("(forall ((%s Int)) (=> %s %s))", bv, rng, body))
		}
		return boolTerm(fmt.Sprintf("(exists ((%s Int)) (and %s %s))", bv, rng, body))
	case "all", "any":
		name := arg(0).(*ast.Ident).Name
		tyExpr := arg(1)
		unbounded := false
		if ce, ok := tyExpr.(*ast.CallExpr); ok {
			if fid, ok := ce.Fun.(*ast.Ident); ok && fid.Name == "unbounded" && len(ce.Args) == 1 {
				// unbounded(T): references range over all object identities, allocated or not (no alloc bound in
				// the guard; use when the body itself implies allocation, e.g. membership in a map)
				unbounded = true
				tyExpr = ce.Args[0]
			}
		}
		t, g := vc.resolveType(tyExpr, e.pkg)
		vc.bvN++
		bv := fmt.Sprintf("%s!q%d", sanitize(name), vc.bvN)
		var bt Term
		if g != nil {
			bt = vc.ghostArrayTerm(bv, g)
		} else {
			bt = vc.mk(bv, t)
		}
		body := e.with(map[string]Term{name: bt}).evalBool(arg(2))
		guard := "true"
		if g == nil {
			// quantified values range over well-formed values of the type (refs: allocated objects incl. nil)
			guard = vc.u.WF(bv, t, e.st.alloc)
			if unbounded {
				guard = reUnbAlloc.ReplaceAllString(vc.u.WF(bv, t, "alloc@unb"), "true")
			}
		}
		if id.Name == "all" {
			return boolTerm(fmt.Sprintf("(forall ((%s %s)) %s)", bv, bt.Sort, imp(guard, body)))
		}
		return boolTerm(fmt.Sprintf("(exists ((%s %s)) %s)", bv, bt.Sort, and(guard, body)))
	case "fresh":
		v := e.eval(arg(0))
		ao := e.allocOld
		if ao == "" && e.old != nil {
			ao = e.old.alloc
		}
		return boolTerm(fmt.Sprintf("(and (<= %s %s) (< %s %s))", ao, v.S, v.S, e.st.alloc))
	case "lfresh":
		// lfresh(x): x was allocated since the enclosing loop was entered (loop invariants only)
		v := e.eval(arg(0))
		if e.lentry == nil {
			vc.specFail(x, "lfresh() outside a loop invariant")
		}
		return boolTerm(fmt.Sprintf("(and (<= %s %s) (< %s %s))", e.lentry.alloc, v.S, v.S, e.st.alloc))
	case "calledcount":
		// number of times a context.CancelFunc value was called in this activation
		f := e.eval(arg(0))
		h := vc.heapGet(e.st, "G$called$cancel", "(Array Int Int)", nil)
		h0 := vc.heapGet(vc.entry, "G$called$cancel", "(Array Int Int)", nil)
		return intTerm("(- " + sel(h.S, f.S) + " " + sel(h0.S, f.S) + ")")
	case "callerfresh":
		// the object was allocated by the function under verification in this activation
		v := e.eval(arg(0))
		return boolTerm("(>= " + v.S + " alloc@0)")
	case "allocated":
		v := e.eval(arg(0))
		return boolTerm(fmt.Sprintf("(and (< 0 %s) (< %s %s))", v.S, v.S, e.st.alloc))
	case "has":
		m := e.eval(arg(0))
		if m.T == nil {
			return Term{S: sel(m.S, e.eval(arg(1)).S), T: types.Typ[types.Bool], Sort: "Bool"}
		}
		mi := vc.mapInfo(m.T)
		k := vc.coerce(e.eval(arg(1)), mi.K)
		return boolTerm(vc.mapHas(e.st, mi, m.S, k.S))
	case "typeis":
		v := e.eval(arg(0))
		t, _ := vc.resolveType(arg(1), e.pkg)
		return boolTerm(vc.hasDynType(v, t))
	case "as":
		v := e.eval(arg(0))
		t, _ := vc.resolveType(arg(1), e.pkg)
		return vc.unbox(v, t)
	case "box":
		v := e.eval(arg(0))
		t, _ := vc.resolveType(arg(1), e.pkg)
		return vc.box(v, t)
	case "isnil":
		return boolTerm(vc.isNil(e.eval(arg(0))))
	case "chanbuf":
		c := e.eval(arg(0))
		return vc.chanBuf(e.st, vc.chanInfo(c.T), c.S)
	case "chanclosed":
		c := e.eval(arg(0))
		return boolTerm(vc.chanClosed(e.st, c.S))
	case "chanhead":
		c := e.eval(arg(0))
		return intTerm(vc.chanHead(e.st, c.S))
	case "chancap":
		c := e.eval(arg(0))
		return intTerm(vc.chanCap(e.st, c.S))
	case "seqeq":
		a, b := e.eval(arg(0)), e.eval(arg(1))
		return boolTerm(vc.seqEq(a, b))
	case "seq":
		// seq(T, a, b, ...) : slice value literal of element type T
		t, _ := vc.resolveType(arg(0), e.pkg)
		st := types.NewSlice(t)
		es := vc.u.SortOf(t)
		arr := fmt.Sprintf("((as const (Array Int %s)) %s)", es, vc.u.Zero(t).S)
		for i, a := range x.Args[1:] {
			arr = store(arr, fmt.Sprint(i), vc.coerce(e.eval(a), t).S)
		}
		return vc.mkSlice(st, arr, fmt.Sprint(len(x.Args)-1), "true")
	case "unchanged":
		a := e.eval(arg(0))
		b := e.inOld().eval(arg(0))
		return boolTerm(eq(a.S, b.S))
	case "min":
		a, b := e.eval(arg(0)), e.eval(arg(1))
		return vc.mk(ite("(<= "+a.S+" "+b.S+")", a.S, b.S), a.T)
	case "max":
		a, b := e.eval(arg(0)), e.eval(arg(1))
		return vc.mk(ite("(>= "+a.S+" "+b.S+")", a.S, b.S), a.T)
	case "card":
		m := e.eval(arg(0))
		mi := vc.mapInfo(m.T)
		return intTerm(vc.mapCard(e.st, mi, m.S))
	case "cardfacts":
		m := e.eval(arg(0))
		mi := vc.mapInfo(m.T)
		return boolTerm(vc.cardFacts(e.st, mi, m.S))
	case "jsondecoded":
		// jsondecoded(T, data): what json.Unmarshal yields for a target of type T (assumed function of the bytes)
		t, _ := vc.resolveType(arg(0), e.pkg)
		d := e.eval(arg(1))
		fn := "abs.jsonDecoded$" + sanitize(typeKey(t))
		vc.u.declFun(fn, "("+d.Sort+") "+vc.u.SortOf(t))
		return vc.mk("("+fn+" "+d.S+")", t)
	case "jsonok":
		t, _ := vc.resolveType(arg(0), e.pkg)
		d := e.eval(arg(1))
		okf := "abs.jsonOK$" + sanitize(typeKey(t))
		vc.u.declFun(okf, "("+d.Sort+") Bool")
		return boolTerm("(" + okf + " " + d.S + ")")
	case "sprintf":
		// sprintf(format, args...): the same uninterpreted term the engine uses for fmt.Sprintf
		f := e.eval(arg(0))
		key := "abs.sprintf" + fmt.Sprint(len(x.Args)-1)
		sorts := []string{"Str"}
		as := []string{f.S}
		for _, a := range x.Args[1:] {
			v := e.eval(a)
			sorts = append(sorts, "Iface")
			as = append(as, vc.box(v, types.NewInterfaceType(nil, nil)).S)
		}
		vc.u.declFun(key, "("+strings.Join(sorts, " ")+") Str")
		return vc.mk("("+key+" "+strings.Join(as, " ")+")", types.Typ[types.String])
	case "setadd":
		a := e.eval(arg(0))
		x := e.eval(arg(1))
		r := a
		r.S = store(a.S, x.S, "true")
		return r
	case "subsetcard":
		// trusted finite-set fact for two maps with the same key type:
		// dom(a) subset dom(b)  ==>  |a| <= |b|  and  (|a| = |b| ==> dom(b) subset dom(a))
		a, b := e.eval(arg(0)), e.eval(arg(1))
		ma, mb := vc.mapInfo(a.T), vc.mapInfo(b.T)
		da, db := vc.mapDom(e.st, ma, a.S), vc.mapDom(e.st, mb, b.S)
		ca, cb := vc.mapCard(e.st, ma, a.S), vc.mapCard(e.st, mb, b.S)
		sub := fmt.Sprintf("(forall ((k!s %s)) (=> (select %s k!s) (select %s k!s)))", ma.ks, da, db)
		sup := fmt.Sprintf("(forall ((k!s %s)) (=> (select %s k!s) (select %s k!s)))", ma.ks, db, da)
		return boolTerm(fmt.Sprintf("(and (=> %s (and (<= %s %s) (=> (= %s %s) %s))) (=> %s (<= %s %s)))", sub, ca, cb, ca, cb, sup, sup, cb, ca))
	case "domof":
		m := e.eval(arg(0))
		mi := vc.mapInfo(m.T)
		return vc.ghostArrayTerm(vc.mapDom(e.st, mi, m.S), &ghostType{K: mi.K, V: types.Typ[types.Bool]})
	case "ctxdone":
		// ctxdone(ctx): the context is (eventually) cancelled - the fact a `<-ctx.Done()` case assumes when taken
		c := e.eval(arg(0))
		vc.u.declFun("abs.ctxdone", "(Iface) Bool")
		return boolTerm("(abs.ctxdone " + c.S + ")")
	case "strlt":
		a, b := e.eval(arg(0)), e.eval(arg(1))
		return boolTerm("(s.lt " + a.S + " " + b.S + ")")
	case "hasprefix":
		a, b := e.eval(arg(0)), e.eval(arg(1))
		return boolTerm(vc.strHasPrefix(a.S, b.S))
	case "smt":
		// smt("sort", "fmt with %s", args...) : escape hatch for uninterpreted symbols declared by abstract
		vc.specFail(x, "smt() not supported")
	}
	if d, ok := vc.p.con.Defines[id.Name]; ok {
		return e.expandDefine(d, e.evalArgs(x.Args))
	}
	if a, ok := vc.p.con.Abstracts[id.Name]; ok {
		return e.applyAbstract(a, e.evalArgs(x.Args))
	}
	// conversion / function in scope
	var obj types.Object
	if e.pkg != nil {
		obj = e.pkg.Scope().Lookup(id.Name)
	}
	if obj == nil {
		obj = types.Universe.Lookup(id.Name)
	}
	if obj == nil {
		for _, pk := range vc.p.sortedPkgs() {
			if o := pk.Types.Scope().Lookup(id.Name); o != nil {
				obj = o
				break
			}
		}
	}
	switch o := obj.(type) {
	case *types.TypeName:
		return e.convert(e.eval(arg(0)), o.Type())
	case *types.Func:
		return e.expandPure(o, nil, e.evalArgs(x.Args), x)
	}
	vc.specFail(x, "unknown spec function %s", id.Name)
	return Term{}
}

func (e *SpecEnv) evalArgs(args []ast.Expr) []Term {
	out := make([]Term, len(args))
	for i, a := range args {
		out[i] = e.eval(a)
	}
	return out
}

func (e *SpecEnv) convert(v Term, t types.Type) Term {
	vc := e.vc
	if isInteger(t) && isInteger(v.T) {
		return vc.convertInt(v, t)
	}
	if isInterface(t) {
		return vc.coerce(v, t)
	}
	return vc.coerce(v, t)
}

func (e *SpecEnv) expandDefine(d *Define, args []Term) Term {
	vc := e.vc
	if e.depth > 40 {
		vc.specFail(d.Body, "define expansion too deep (%s recursive?)", d.Name)
	}
	vars := map[string]Term{}
	i := 0
	var dpkg *types.Package
	if pk, ok := vc.p.pkgs[d.Pkg]; ok {
		dpkg = pk.Types
	} else {
		dpkg = e.pkg
	}
	for _, f := range d.Params {
		t, g := vc.resolveType(f.Type, dpkg)
		for _, n := range f.Names {
			if i >= len(args) {
				vc.specFail(d.Body, "%s: too few arguments", d.Name)
			}
			a := args[i]
			if g == nil {
				a = vc.coerce(a, t)
			}
			vars[n.Name] = a
			i++
		}
	}
	if i != len(args) {
		vc.specFail(d.Body, "%s: wrong number of arguments (%d, want %d)", d.Name, len(args), i)
	}
	if d.Opaque && !e.insideOpaque[d.Name] {
		// opaque define: the body is evaluated once over bound parameters in the current state; the application is
		// an uninterpreted symbol (named after the resulting formula, hence after every heap version it reads) with
		// the definitional axiom sym(params) == body. Instances are then matched as atoms (witnesses of existentials,
		// alpha-equivalent copies) and unfolded by the axiom when the content is needed.
		var ps []Term
		var decl, names, sorts []string
		pv := map[string]Term{}
		k := 0
		for _, f := range d.Params {
			t, g := vc.resolveType(f.Type, dpkg)
			if g != nil {
				vc.specFail(d.Body, "odefine %s: ghost-typed parameters are not supported", d.Name)
			}
			for _, nm := range f.Names {
				vc.bvN++
				bn := fmt.Sprintf("%s!q%d", sanitize(nm.Name), vc.bvN)
				bt := vc.mk(bn, t)
				pv[nm.Name] = bt
				ps = append(ps, bt)
				decl = append(decl, "("+bn+" "+bt.Sort+")")
				names = append(names, bn)
				sorts = append(sorts, bt.Sort)
				k++
			}
		}
		io := map[string]bool{d.Name: true}
		for x := range e.insideOpaque {
			io[x] = true
		}
		be := &SpecEnv{vc: vc, st: e.st, old: e.old, vars: pv, pkg: dpkg, depth: e.depth + 1, allocOld: e.allocOld, insideOpaque: io}
		body := be.eval(d.Body)
		canon := canonBound("(forall (" + strings.Join(decl, " ") + ") " + body.S + ")")
		sum := sha1.Sum([]byte(canon))
		sym := fmt.Sprintf("od$%s$%x", sanitize(d.Name), sum[:6])
		vc.u.declFun(sym, "("+strings.Join(sorts, " ")+") "+body.Sort)
		app := "(" + sym + " " + strings.Join(names, " ") + ")"
		if !vc.odSeen[sym] {
			vc.odSeen[sym] = true
			vc.addBase("(forall (" + strings.Join(decl, " ") + ") (! (= " + app + " " + body.S + ") :pattern (" + app + ")))")
		}
		var as []string
		for j, a := range args {
			as = append(as, vc.coerce(a, ps[j].T).S)
		}
		r := body
		r.S = "(" + sym + " " + strings.Join(as, " ") + ")"
		return r
	}
	n := &SpecEnv{vc: vc, st: e.st, old: e.old, vars: vars, pkg: dpkg, depth: e.depth + 1, allocOld: e.allocOld, insideOpaque: e.insideOpaque}
	r := n.eval(d.Body)
	if d.Ret != nil {
		if t, g := vc.resolveType(d.Ret, dpkg); g == nil && t != nil {
			r = vc.coerce(r, t)
		}
	}
	return r
}

func (e *SpecEnv) applyAbstract(a *Abstract, args []Term) Term {
	vc := e.vc
	var dpkg *types.Package
	if pk, ok := vc.p.pkgs[a.Pkg]; ok {
		dpkg = pk.Types
	} else {
		dpkg = e.pkg
	}
	var sorts []string
	i := 0
	var as []string
	for _, f := range a.Params {
		t, g := vc.resolveType(f.Type, dpkg)
		for range f.Names {
			if g != nil {
				sorts = append(sorts, vc.ghostArrayTerm("", g).Sort)
				as = append(as, args[i].S)
			} else {
				sorts = append(sorts, vc.u.SortOf(t))
				as = append(as, vc.coerce(args[i], t).S)
			}
			i++
		}
	}
	rt, rg := vc.resolveType(a.Ret, dpkg)
	var rs string
	if rg != nil {
		rs = vc.ghostArrayTerm("", rg).Sort
	} else {
		rs = vc.u.SortOf(rt)
	}
	name := "abs." + a.Name
	vc.u.declFun(name, "("+strings.Join(sorts, " ")+") "+rs)
	s := name
	if len(as) > 0 {
		s = "(" + name + " " + strings.Join(as, " ") + ")"
	}
	if rg != nil {
		return vc.ghostArrayTerm(s, rg)
	}
	return vc.mk(s, rt)
}

// expandPure inlines the defining postcondition "result == E" of a pure contract function.
func (e *SpecEnv) expandPure(fn *types.Func, recv *Term, args []Term, at ast.Expr) Term {
	vc := e.vc
	spec := vc.p.specFor(fn)
	if spec == nil {
		vc.specFail(at, "function %s used in a spec has no contract", fn.FullName())
	}
	sig := fn.Type().(*types.Signature)
	vars := map[string]Term{}
	names := vc.p.paramNames(spec, sig)
	idx := 0
	if sig.Recv() != nil {
		if recv == nil {
			vc.specFail(at, "%s needs a receiver", fn.Name())
		}
		vars[names[0]] = *recv
		idx = 1
	}
	for i := 0; i < sig.Params().Len(); i++ {
		if i >= len(args) {
			vc.specFail(at, "%s: too few arguments", fn.Name())
		}
		pt := vc.ts.apply(sig.Params().At(i).Type())
		if containsTypeParam(pt) {
			vars[names[idx+i]] = args[i] // generic parameter: keep the argument's own type
		} else {
			vars[names[idx+i]] = vc.coerce(args[i], pt)
		}
	}
	resName := "result"
	if sig.Results().Len() == 1 && sig.Results().At(0).Name() != "" {
		resName = sig.Results().At(0).Name()
	}
	var fpkg *types.Package = fn.Pkg()
	for _, c := range spec.Ensures {
		if be, ok := c.Expr.(*ast.BinaryExpr); ok && be.Op == token.EQL {
			if id, ok := be.X.(*ast.Ident); ok && (id.Name == "result" || id.Name == resName) {
				n := &SpecEnv{vc: vc, st: e.st, old: e.old, vars: vars, pkg: fpkg, depth: e.depth + 1, allocOld: e.allocOld}
				r := n.eval(be.Y)
				if sig.Results().Len() == 1 && !containsTypeParam(vc.ts.apply(sig.Results().At(0).Type())) {
					r = vc.coerce(r, vc.ts.apply(sig.Results().At(0).Type()))
				}
				return r
			}
		}
	}
	vc.specFail(at, "contract of %s has no defining clause 'ensures result == E'", fn.FullName())
	return Term{}
}

// paramNames: receiver (if any) followed by parameter names, honouring a params(...) rename.
func (p *Prog) paramNames(spec *FuncSpec, sig *types.Signature) []string {
	var names []string
	if r := sig.Recv(); r != nil {
		n := r.Name()
		if n == "" || n == "_" {
			n = "recv"
		}
		names = append(names, n)
	}
	for i := 0; i < sig.Params().Len(); i++ {
		n := sig.Params().At(i).Name()
		if n == "" || n == "_" {
			n = fmt.Sprintf("arg%d", i)
		}
		names = append(names, n)
	}
	if spec != nil && len(spec.ParamsRen) > 0 {
		for i := range names {
			if i < len(spec.ParamsRen) {
				names[i] = spec.ParamsRen[i]
			}
		}
	}
	return names
}

// seqEq: extensional equality of two slice values.
func (vc *VC) seqEq(a, b Term) string {
	la, lb := vc.sliceLen(a), vc.sliceLen(b)
	return fmt.Sprintf("(and (= %s %s) (forall ((i!s Int)) (=> (and (<= 0 i!s) (< i!s %s)) (= (select %s i!s) (select %s i!s)))))",
		la, lb, la, vc.sliceArr(a), vc.sliceArr(b))
}

func (vc *VC) strHasPrefix(s, p string) string {
	return fmt.Sprintf("(and (<= (s.len %s) (s.len %s)) (forall ((i!p Int)) (=> (and (<= 0 i!p) (< i!p (s.len %s))) (= (s.at %s i!p) (s.at %s i!p)))))", p, s, p, s, p)
}

// sliceOf: x[lo:hi] for slices and strings (fresh symbol with defining facts).
func (vc *VC) sliceOf(st *State, x Term, lo, hi Term) Term {
	if isString(x.T) {
		// substring: defined by the global s.sub axioms (no state facts: usable under binders)
		return vc.mk("(s.sub "+x.S+" "+lo.S+" "+hi.S+")", x.T)
	}
	if _, ok := under(x.T).(*types.Slice); ok {
		es := vc.u.SortOf(elemType(x.T))
		a := vc.freshSort("sub", "(Array Int "+es+")")
		st.assume(fmt.Sprintf("(forall ((i!u Int)) (! (= (select %s i!u) (select %s (+ i!u %s))) :pattern ((select %s i!u))))", a.S, vc.sliceArr(x), lo.S, a.S))
		return vc.mkSlice(x.T, a.S, "(- "+hi.S+" "+lo.S+")", vc.sliceNN(x))
	}
	if at, ok := under(x.T).(*types.Array); ok {
		// array to slice: a[:]
		st2 := types.NewSlice(at.Elem())
		es := vc.u.SortOf(at.Elem())
		if at.Len() > 8 {
			a := vc.freshSort("sub", "(Array Int "+es+")")
			st.assume(fmt.Sprintf("(forall ((i!u Int)) (! (= (select %s i!u) (select %s (+ i!u %s))) :pattern ((select %s i!u))))", a.S, x.S, lo.S, a.S))
			return vc.mkSlice(st2, a.S, "(- "+hi.S+" "+lo.S+")", "true")
		}
	}
	panic(unsupported("slice expression on " + fmt.Sprint(x.T)))
}

// applyFuncTerm: f(args) in a spec where f is a function value.
func (e *SpecEnv) applyFuncTerm(f Term, args []Term, at ast.Expr) Term {
	vc := e.vc
	if fv, ok := vc.closures[f.S]; ok {
		if fv.Fn != nil {
			return e.expandPure(fv.Fn, fv.Recv, args, at)
		}
		if fv.Lit != nil {
			return vc.pureEvalLit(e.st, fv.Lit, args)
		}
	}
	sig := under(f.T).(*types.Signature)
	if sig.Results().Len() != 1 {
		vc.specFail(at, "function value with %d results in spec", sig.Results().Len())
	}
	var sorts, as []string
	sorts = append(sorts, "Int")
	as = append(as, f.S)
	for i, a := range args {
		pt := vc.ts.apply(sig.Params().At(min(i, sig.Params().Len()-1)).Type())
		a = vc.coerce(a, pt)
		sorts = append(sorts, a.Sort)
		as = append(as, a.S)
	}
	rt := vc.ts.apply(sig.Results().At(0).Type())
	rs := vc.u.SortOf(rt)
	name := fmt.Sprintf("apply0$%s$%s", sanitize(strings.Join(sorts, "_")), sanitize(rs))
	vc.u.declFun(name, "("+strings.Join(sorts, " ")+") "+rs)
	return vc.mk("("+name+" "+strings.Join(as, " ")+")", rt)
}

// ghost heaps declared with `ghost name T`
var reUnbAlloc = regexp.MustCompile(`\(< [^()]+ alloc@unb\)`)

func (vc *VC) ghostHeap(name string, pkg *types.Package) (hname, hsort string, t types.Type, g *ghostType) {
	d, ok := vc.p.con.Ghosts[name]
	if !ok {
		panic(unsupported("spec: undeclared ghost heap " + name))
	}
	dpkg := pkg
	if pk, ok := vc.p.pkgs[d.Pkg]; ok {
		dpkg = pk.Types
	}
	t, g = vc.resolveType(d.Type, dpkg)
	var vs string
	if g != nil {
		vs = vc.ghostArrayTerm("", g).Sort
	} else {
		vs = vc.u.SortOf(t)
	}
	if d.ZeroInit && g == nil {
		hn := "G$" + name
		vc.declare(hn+"@0", "(Array Int "+vs+")")
		vc.addBase(fmt.Sprintf("(forall ((r!z Int)) (! (=> (>= r!z alloc@0) (= (select %s@0 r!z) %s)) :pattern ((select %s@0 r!z))))", hn, vc.u.Zero(t).S, hn))
	}
	return "G$" + name, "(Array Int " + vs + ")", t, g
}

func (vc *VC) ghostLoad(st *State, name, ref string, pkg *types.Package) Term {
	hn, hs, t, g := vc.ghostHeap(name, pkg)
	var shapeT types.Type
	if g == nil && t != nil {
		if _, ok := under(t).(*types.Slice); ok {
			shapeT = t // ghost sequences have the shape of a slice (length >= 0)
		}
	}
	h := vc.heapGet(st, hn, hs, shapeT)
	if g != nil {
		return vc.ghostArrayTerm(sel(h.S, ref), g)
	}
	return vc.mk(sel(h.S, ref), t)
}

func containsTypeParam(t types.Type) bool {
	switch tt := t.(type) {
	case *types.TypeParam:
		return true
	case *types.Pointer:
		return containsTypeParam(tt.Elem())
	case *types.Slice:
		return containsTypeParam(tt.Elem())
	case *types.Array:
		return containsTypeParam(tt.Elem())
	case *types.Map:
		return containsTypeParam(tt.Key()) || containsTypeParam(tt.Elem())
	case *types.Chan:
		return containsTypeParam(tt.Elem())
	case *types.Named:
		for i := 0; tt.TypeArgs() != nil && i < tt.TypeArgs().Len(); i++ {
			if containsTypeParam(tt.TypeArgs().At(i)) {
				return true
			}
		}
	}
	return false
}
