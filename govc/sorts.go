package main

import (
	"fmt"
	"go/types"
	"strings"
)

// subst applies the type-parameter substitution of the function being verified.
type TSubst map[*types.TypeParam]types.Type

func (ts TSubst) apply(t types.Type) types.Type {
	if len(ts) == 0 || t == nil {
		return t
	}
	switch tt := t.(type) {
	case *types.TypeParam:
		if r, ok := ts[tt]; ok {
			return r
		}
		return t
	case *types.Pointer:
		return types.NewPointer(ts.apply(tt.Elem()))
	case *types.Slice:
		return types.NewSlice(ts.apply(tt.Elem()))
	case *types.Array:
		return types.NewArray(ts.apply(tt.Elem()), tt.Len())
	case *types.Map:
		return types.NewMap(ts.apply(tt.Key()), ts.apply(tt.Elem()))
	case *types.Chan:
		return types.NewChan(tt.Dir(), ts.apply(tt.Elem()))
	case *types.Named:
		if tt.TypeArgs() != nil && tt.TypeArgs().Len() > 0 {
			args := make([]types.Type, tt.TypeArgs().Len())
			changed := false
			for i := range args {
				args[i] = ts.apply(tt.TypeArgs().At(i))
				if args[i] != tt.TypeArgs().At(i) {
					changed = true
				}
			}
			if changed {
				inst, err := types.Instantiate(nil, tt.Origin(), args, false)
				if err == nil {
					return inst
				}
			}
		}
		return t
	}
	return t
}

func under(t types.Type) types.Type {
	if t == nil {
		return nil
	}
	return t.Underlying()
}

func isInterface(t types.Type) bool {
	if t == nil {
		return false
	}
	if _, ok := t.(*types.TypeParam); ok {
		return true
	}
	_, ok := under(t).(*types.Interface)
	return ok
}

func isString(t types.Type) bool {
	b, ok := under(t).(*types.Basic)
	return ok && b.Info()&types.IsString != 0
}

func isInteger(t types.Type) bool {
	b, ok := under(t).(*types.Basic)
	return ok && b.Info()&types.IsInteger != 0
}

func isFloat(t types.Type) bool {
	b, ok := under(t).(*types.Basic)
	return ok && b.Info()&types.IsFloat != 0
}

func isBool(t types.Type) bool {
	b, ok := under(t).(*types.Basic)
	return ok && b.Info()&types.IsBoolean != 0
}

func isUntypedNil(t types.Type) bool {
	b, ok := t.(*types.Basic)
	return ok && b.Kind() == types.UntypedNil
}

// isRefLike: pointers, maps, chans, funcs are modelled as Int references.
func isRefLike(t types.Type) bool {
	switch under(t).(type) {
	case *types.Pointer, *types.Map, *types.Chan, *types.Signature:
		return true
	}
	if b, ok := under(t).(*types.Basic); ok && b.Kind() == types.UnsafePointer {
		return true
	}
	return false
}

func typeKey(t types.Type) string {
	return types.TypeString(t, func(p *types.Package) string { return p.Name() })
}

// SortOf maps a Go type to an SMT sort, declaring datatypes on demand.
func (u *Universe) SortOf(t types.Type) string {
	if t == nil {
		panic("SortOf(nil)")
	}
	if _, ok := t.(*types.TypeParam); ok {
		return "Iface"
	}
	switch tt := under(t).(type) {
	case *types.Basic:
		switch {
		case tt.Info()&types.IsBoolean != 0:
			return "Bool"
		case tt.Info()&types.IsInteger != 0:
			return "Int"
		case tt.Info()&types.IsString != 0:
			return "Str"
		case tt.Info()&types.IsFloat != 0:
			return "Int" // floats only occur as ghost arithmetic (gauge deltas); modelled as mathematical integers
		case tt.Kind() == types.UntypedNil:
			return "Int"
		case tt.Kind() == types.UnsafePointer:
			return "Int"
		}
		panic(unsupported("basic type " + tt.String()))
	case *types.Pointer, *types.Map, *types.Chan, *types.Signature:
		return "Int"
	case *types.Interface:
		return "Iface"
	case *types.Slice:
		es := u.SortOf(tt.Elem())
		name := "Slice_" + sanitize(es)
		if !u.sortSeen[name] {
			u.sortSeen[name] = true
			u.sortDecls = append(u.sortDecls, fmt.Sprintf(
				"(declare-datatypes ((%s 0)) (((mk_%s (arr_%s (Array Int %s)) (len_%s Int) (nn_%s Bool)))))",
				name, name, name, es, name, name))
		}
		return name
	case *types.Array:
		es := u.SortOf(tt.Elem())
		n := tt.Len()
		if n > 8 {
			return "(Array Int " + es + ")"
		}
		name := fmt.Sprintf("A%d_%s", n, sanitize(es))
		if !u.sortSeen[name] {
			u.sortSeen[name] = true
			var fs []string
			for i := int64(0); i < n; i++ {
				fs = append(fs, fmt.Sprintf("(e%d_%s %s)", i, name, es))
			}
			u.sortDecls = append(u.sortDecls, fmt.Sprintf("(declare-datatypes ((%s 0)) (((mk_%s %s))))", name, name, strings.Join(fs, " ")))
		}
		return name
	case *types.Struct:
		name := u.structName(t, tt)
		if !u.sortSeen[name] {
			u.sortSeen[name] = true
			var fs []string
			for i := 0; i < tt.NumFields(); i++ {
				f := tt.Field(i)
				fs = append(fs, fmt.Sprintf("(%s %s)", u.fieldSel(name, f.Name(), i), u.SortOf(f.Type())))
			}
			if len(fs) == 0 {
				u.sortDecls = append(u.sortDecls, fmt.Sprintf("(declare-datatypes ((%s 0)) (((mk_%s))))", name, name))
			} else {
				u.sortDecls = append(u.sortDecls, fmt.Sprintf("(declare-datatypes ((%s 0)) (((mk_%s %s))))", name, name, strings.Join(fs, " ")))
			}
			u.structSorts[name] = tt
		}
		return name
	case *types.Tuple:
		panic(unsupported("tuple sort"))
	}
	panic(unsupported("type " + t.String()))
}

func (u *Universe) fieldSel(structSort, field string, idx int) string {
	if field == "_" {
		field = fmt.Sprintf("blank%d", idx)
	}
	return "f_" + structSort + "_" + sanitize(field)
}

func (u *Universe) structName(t types.Type, st *types.Struct) string {
	if n, ok := t.(*types.Named); ok {
		k := typeKey(n)
		if s, ok := u.namedStruct[k]; ok {
			return s
		}
		s := "S_" + sanitize(k)
		u.namedStruct[k] = s
		return s
	}
	if a, ok := t.(*types.Alias); ok {
		return u.structName(types.Unalias(a), st)
	}
	k := st.String()
	if s, ok := u.anonNames[k]; ok {
		return s
	}
	u.anonN++
	s := fmt.Sprintf("S_anon%d", u.anonN)
	u.anonNames[k] = s
	return s
}

// structOwnerName: name used for heap field arrays of pointer-to-struct objects.
func (u *Universe) heapField(t types.Type, field string) string {
	return "F$" + strings.TrimPrefix(u.SortOf(t), "S_") + "$" + sanitize(field)
}

// Zero value of a Go type.
func (u *Universe) Zero(t types.Type) Term {
	s := u.SortOf(t)
	mk := func(x string) Term { return Term{S: x, T: t, Sort: s} }
	if _, ok := t.(*types.TypeParam); ok {
		return mk("(mk_Iface 0 0)")
	}
	switch tt := under(t).(type) {
	case *types.Basic:
		switch s {
		case "Bool":
			return mk("false")
		case "Int":
			return mk("0")
		case "Str":
			return mk("s.empty")
		}
	case *types.Pointer, *types.Map, *types.Chan, *types.Signature:
		return mk("0")
	case *types.Interface:
		return mk("(mk_Iface 0 0)")
	case *types.Slice:
		es := u.SortOf(tt.Elem())
		return mk(fmt.Sprintf("(mk_%s ((as const (Array Int %s)) %s) 0 false)", s, es, u.Zero(tt.Elem()).S))
	case *types.Array:
		ez := u.Zero(tt.Elem()).S
		if tt.Len() > 8 {
			return mk(fmt.Sprintf("((as const %s) %s)", s, ez))
		}
		if tt.Len() == 0 {
			return mk("mk_" + s)
		}
		parts := make([]string, tt.Len())
		for i := range parts {
			parts[i] = ez
		}
		return mk("(mk_" + s + " " + strings.Join(parts, " ") + ")")
	case *types.Struct:
		if tt.NumFields() == 0 {
			return mk("mk_" + s)
		}
		parts := make([]string, tt.NumFields())
		for i := range parts {
			parts[i] = u.Zero(tt.Field(i).Type()).S
		}
		return mk("(mk_" + s + " " + strings.Join(parts, " ") + ")")
	}
	panic(unsupported("zero of " + t.String()))
}

func intRange(t types.Type) (lo, hi string, ok bool) {
	b, isb := under(t).(*types.Basic)
	if !isb {
		return
	}
	switch b.Kind() {
	case types.Int, types.Int64, types.UntypedInt:
		return "(- 9223372036854775808)", "9223372036854775807", true
	case types.Int32, types.UntypedRune:
		return "(- 2147483648)", "2147483647", true
	case types.Int16:
		return "(- 32768)", "32767", true
	case types.Int8:
		return "(- 128)", "127", true
	case types.Uint, types.Uint64, types.Uintptr:
		return "0", "18446744073709551615", true
	case types.Uint32:
		return "0", "4294967295", true
	case types.Uint16:
		return "0", "65535", true
	case types.Uint8:
		return "0", "255", true
	}
	return
}

// WF returns the type invariant of value x of Go type t (as an SMT formula), given the
// allocation frontier alloc. depth bounds the nesting through quantifiers.
func (u *Universe) WF(x string, t types.Type, alloc string) string {
	return u.wfd(x, t, alloc, 0)
}

func (u *Universe) wfd(x string, t types.Type, alloc string, d int) string {
	if _, ok := t.(*types.TypeParam); ok {
		return "(>= (itag " + x + ") 0)"
	}
	switch tt := under(t).(type) {
	case *types.Basic:
		if lo, hi, ok := intRange(t); ok {
			return fmt.Sprintf("(and (<= %s %s) (<= %s %s))", lo, x, x, hi)
		}
		return "true"
	case *types.Pointer, *types.Map, *types.Chan, *types.Signature:
		return fmt.Sprintf("(and (<= 0 %s) (< %s %s))", x, x, alloc)
	case *types.Interface:
		return u.wfIface(x, alloc)
	case *types.Slice:
		s := u.SortOf(t)
		ln := "(len_" + s + " " + x + ")"
		base := fmt.Sprintf("(>= %s 0) (<= %s 9223372036854775807) (=> (not (nn_%s %s)) (= %s 0))", ln, ln, s, x, ln)
		if u.boundedWF > 0 {
			// bounded mode (counterexample search): element invariants for the first K elements, and len <= K
			parts := []string{base, fmt.Sprintf("(<= %s %d)", ln, u.boundedWF)}
			for i := 0; i < u.boundedWF; i++ {
				ew := u.wfd(fmt.Sprintf("(select (arr_%s %s) %d)", s, x, i), tt.Elem(), alloc, d+1)
				if ew != "true" {
					parts = append(parts, fmt.Sprintf("(=> (< %d %s) %s)", i, ln, ew))
				}
			}
			return "(and " + strings.Join(parts, " ") + ")"
		}
		iv := fmt.Sprintf("wf!i%d", d)
		ew := u.wfd("(select (arr_"+s+" "+x+") "+iv+")", tt.Elem(), alloc, d+1)
		if ew == "true" {
			return "(and " + base + ")"
		}
		return fmt.Sprintf("(and %s (forall ((%s Int)) (=> (and (<= 0 %s) (< %s %s)) %s)))", base, iv, iv, iv, ln, ew)
	case *types.Array:
		s := u.SortOf(t)
		if tt.Len() > 8 {
			return "true"
		}
		var parts []string
		for i := int64(0); i < tt.Len(); i++ {
			parts = append(parts, u.wfd(fmt.Sprintf("(e%d_%s %s)", i, s, x), tt.Elem(), alloc, d))
		}
		return and(parts...)
	case *types.Struct:
		s := u.SortOf(t)
		var parts []string
		for i := 0; i < tt.NumFields(); i++ {
			parts = append(parts, u.wfd("("+u.fieldSel(s, tt.Field(i).Name(), i)+" "+x+")", tt.Field(i).Type(), alloc, d))
		}
		return and(parts...)
	}
	return "true"
}

func (u *Universe) wfIface(x, alloc string) string {
	return fmt.Sprintf("(and (>= (itag %s) 0) (=> (= (itag %s) 0) (= (ipay %s) 0)))", x, x, x)
}

type unsupportedErr struct{ what string }

func (e unsupportedErr) Error() string { return "UNSUPPORTED " + e.what }

func unsupported(what string) error { return unsupportedErr{what} }
