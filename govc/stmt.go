package main

import (
	"fmt"
	"go/ast"
	"go/token"
	"go/types"
)

type target struct {
	label  string
	isLoop bool
	breaks []*State
	conts  []*State
}

const maxPaths = 4000

func (vc *VC) execBlock(sts []*State, stmts []ast.Stmt) []*State {
	for _, s := range stmts {
		var next []*State
		for _, st := range sts {
			next = append(next, vc.execStmt(st, s)...)
		}
		sts = next
		if len(sts) > maxPaths {
			vc.fail(s, "path explosion (%d paths)", len(sts))
		}
		if len(sts) == 0 {
			break
		}
	}
	return sts
}

func (vc *VC) execStmt(st *State, s ast.Stmt) []*State {
	switch x := s.(type) {
	case nil:
		return []*State{st}
	case *ast.BlockStmt:
		return vc.execBlock([]*State{st}, x.List)
	case *ast.EmptyStmt:
		return []*State{st}
	case *ast.ExprStmt:
		vc.evalMulti(st, x.X)
		return vc.afterCall(st)
	case *ast.DeclStmt:
		gd := x.Decl.(*ast.GenDecl)
		if gd.Tok == token.CONST || gd.Tok == token.TYPE {
			return []*State{st}
		}
		for _, sp := range gd.Specs {
			vs := sp.(*ast.ValueSpec)
			if len(vs.Values) == 0 {
				for _, n := range vs.Names {
					obj := vc.info.Defs[n]
					if obj == nil {
						continue
					}
					st.vars[obj] = vc.u.Zero(vc.ts.apply(obj.Type()))
					st.freshSl[obj] = true
				}
				continue
			}
			if len(vs.Values) == len(vs.Names) {
				for i, n := range vs.Names {
					v := vc.evalExpr(st, vs.Values[i])
					vc.assign(st, n, v)
				}
			} else {
				vals := vc.evalMulti(st, vs.Values[0])
				for i, n := range vs.Names {
					vc.assign(st, n, vals[i])
				}
			}
		}
		return vc.afterCall(st)
	case *ast.AssignStmt:
		return vc.execAssign(st, x)
	case *ast.IncDecStmt:
		v := vc.evalExpr(st, x.X)
		op := "+"
		if x.Tok == token.DEC {
			op = "-"
		}
		r := vc.mk("("+op+" "+v.S+" 1)", v.T)
		r = vc.checkOverflow(st, r, v.T, x.X)
		vc.assign(st, x.X, r)
		return []*State{st}
	case *ast.IfStmt:
		return vc.execIf(st, x)
	case *ast.ReturnStmt:
		vc.execReturn(st, x)
		return nil
	case *ast.ForStmt:
		return vc.execFor(st, x, "")
	case *ast.RangeStmt:
		return vc.execRange(st, x, "")
	case *ast.LabeledStmt:
		switch in := x.Stmt.(type) {
		case *ast.ForStmt:
			return vc.execFor(st, in, x.Label.Name)
		case *ast.RangeStmt:
			return vc.execRange(st, in, x.Label.Name)
		case *ast.SwitchStmt:
			return vc.execSwitch(st, in, x.Label.Name)
		case *ast.TypeSwitchStmt:
			return vc.execTypeSwitch(st, in, x.Label.Name)
		}
		vc.fail(s, "unsupported labeled statement")
	case *ast.BranchStmt:
		label := ""
		if x.Label != nil {
			label = x.Label.Name
		}
		switch x.Tok {
		case token.BREAK:
			for i := len(vc.targets) - 1; i >= 0; i-- {
				t := vc.targets[i]
				if label == "" || t.label == label {
					t.breaks = append(t.breaks, st)
					return nil
				}
			}
		case token.CONTINUE:
			for i := len(vc.targets) - 1; i >= 0; i-- {
				t := vc.targets[i]
				if t.isLoop && (label == "" || t.label == label) {
					t.conts = append(t.conts, st)
					return nil
				}
			}
		}
		vc.fail(s, "unsupported branch statement %s", x.Tok)
	case *ast.SwitchStmt:
		return vc.execSwitch(st, x, "")
	case *ast.TypeSwitchStmt:
		return vc.execTypeSwitch(st, x, "")
	case *ast.DeferStmt:
		vc.execDefer(st, x)
		return []*State{st}
	case *ast.GoStmt:
		vc.note("go statement at " + vc.pos(s) + ": spawned goroutine is not part of this function's contract (unverified concurrent glue)")
		return []*State{st}
	case *ast.SendStmt:
		vc.execSend(st, x)
		return []*State{st}
	case *ast.SelectStmt:
		return vc.execSelect(st, x)
	}
	vc.fail(s, "unsupported statement %T", s)
	return nil
}

// afterCall drops states that became unreachable (callee never returns: panic functions).
func (vc *VC) afterCall(st *State) []*State {
	if st.dead {
		return nil
	}
	return []*State{st}
}

func (vc *VC) execAssign(st *State, x *ast.AssignStmt) []*State {
	if x.Tok != token.ASSIGN && x.Tok != token.DEFINE {
		// op-assign
		var op token.Token
		switch x.Tok {
		case token.ADD_ASSIGN:
			op = token.ADD
		case token.SUB_ASSIGN:
			op = token.SUB
		case token.MUL_ASSIGN:
			op = token.MUL
		case token.OR_ASSIGN:
			op = token.OR
		default:
			vc.fail(x, "unsupported assignment operator %s", x.Tok)
		}
		a := vc.evalExpr(st, x.Lhs[0])
		b := vc.evalExpr(st, x.Rhs[0])
		r, _ := vc.binArith(op, a, b, a.T)
		if isInteger(a.T) && (op == token.ADD || op == token.SUB || op == token.MUL) {
			r = vc.checkOverflow(st, r, a.T, x)
		}
		vc.assign(st, x.Lhs[0], r)
		return []*State{st}
	}
	if len(x.Lhs) == len(x.Rhs) {
		vals := make([]Term, len(x.Rhs))
		for i, r := range x.Rhs {
			vals[i] = vc.evalExpr(st, r)
			if st.dead {
				return nil
			}
		}
		for i, l := range x.Lhs {
			vc.trackSliceOrigin(st, l, x.Rhs[i], vals[i])
			vc.assign(st, l, vals[i])
		}
		return vc.afterCall(st)
	}
	// multi-value: call, comma-ok map index, comma-ok type assertion, comma-ok receive
	var vals []Term
	switch r := x.Rhs[0].(type) {
	case *ast.IndexExpr:
		vals = vc.evalIndex(st, r, true)
	case *ast.TypeAssertExpr:
		v := vc.evalExpr(st, r.X)
		t := vc.typeOf(r.Type)
		ok := vc.hasDynType(v, t)
		uv := vc.unbox(v, t)
		z := vc.u.Zero(t)
		vals = []Term{vc.mk(ite(ok, uv.S, z.S), t), boolTerm(ok)}
	case *ast.UnaryExpr:
		vc.fail(x, "channel receive outside select model")
	default:
		vals = vc.evalMulti(st, x.Rhs[0])
	}
	if st.dead {
		return nil
	}
	if len(vals) != len(x.Lhs) {
		vc.fail(x, "assignment count mismatch: %d = %d", len(x.Lhs), len(vals))
	}
	for i, l := range x.Lhs {
		vc.assign(st, l, vals[i])
		if id, ok := l.(*ast.Ident); ok {
			if obj := vc.objOf(id); obj != nil {
				st.freshSl[obj] = true // values returned by calls are not aliased by locals of this function
				delete(st.alias, obj)
			}
		}
	}
	return []*State{st}
}

func (vc *VC) objOf(id *ast.Ident) types.Object {
	if o := vc.info.Defs[id]; o != nil {
		return o
	}
	return vc.info.Uses[id]
}

// trackSliceOrigin records, for `v := m[k]` / `v := x.f` with slice type, where the slice came from so that
// element writes through v are also applied to the origin (shared backing array).
func (vc *VC) trackSliceOrigin(st *State, lhs, rhs ast.Expr, val Term) {
	id, ok := lhs.(*ast.Ident)
	if !ok || id.Name == "_" {
		return
	}
	obj := vc.objOf(id)
	if obj == nil {
		return
	}
	if _, isSlice := under(vc.ts.apply(obj.Type())).(*types.Slice); !isSlice {
		return
	}
	delete(st.alias, obj)
	st.freshSl[obj] = false
	switch r := rhs.(type) {
	case *ast.CallExpr:
		// make / append / calls: fresh unless it is append onto another slice
		if fid, ok := r.Fun.(*ast.Ident); ok && fid.Name == "append" && len(r.Args) > 0 {
			if aid, ok := r.Args[0].(*ast.Ident); ok && vc.objOf(aid) == obj {
				// x = append(x, ...) keeps x's status
				st.freshSl[obj] = true
				return
			}
		}
		st.freshSl[obj] = true
	case *ast.CompositeLit:
		st.freshSl[obj] = true
	case *ast.Ident:
		if r.Name == "nil" {
			st.freshSl[obj] = true
		} else if ro := vc.objOf(r); ro != nil {
			st.freshSl[obj] = st.freshSl[ro]
			if al, ok := st.alias[ro]; ok {
				st.alias[obj] = al
			}
		}
	case *ast.IndexExpr:
		bt := vc.typeOf(r.X)
		if _, isMap := under(bt).(*types.Map); isMap {
			// origin: map element. Re-evaluate operands on a scratch clone (pure expressions).
			sc := st.clone()
			ref := vc.evalExprQuiet(sc, r.X)
			mi := vc.mapInfo(bt)
			key := vc.coerce(vc.evalExprQuiet(sc, r.Index), mi.K)
			st.alias[obj] = &aliasOrigin{write: func(s *State, v Term) {
				// element write keeps the map's domain; value updated in place
				vh := vc.heapGet(s, mi.vn, mi.vsort, mi.V)
				s.heap[mi.vn] = Term{S: store(vh.S, ref.S, store(sel(vh.S, ref.S), key.S, v.S)), Sort: mi.vsort}
			}}
		}
	case *ast.SelectorExpr:
		if sel, ok := vc.info.Selections[r]; ok && sel.Kind() == types.FieldVal && len(sel.Index()) == 1 {
			bt := vc.typeOf(r.X)
			if pt, ok := under(bt).(*types.Pointer); ok {
				sc := st.clone()
				ref := vc.evalExprQuiet(sc, r.X)
				et := vc.ts.apply(pt.Elem())
				f := under(et).(*types.Struct).Field(sel.Index()[0])
				st.alias[obj] = &aliasOrigin{write: func(s *State, v Term) { vc.storeField(s, et, f, ref.S, v) }}
			}
		}
	}
}

// evalExprQuiet evaluates without recording obligations.
func (vc *VC) evalExprQuiet(st *State, e ast.Expr) Term {
	n := len(vc.obls)
	saved := map[string]int{}
	for k, v := range vc.counters {
		saved[k] = v
	}
	vc.quiet++
	t := vc.evalExpr(st, e)
	vc.quiet--
	vc.obls = vc.obls[:n]
	vc.counters = saved
	return t
}

func (vc *VC) execIf(st *State, x *ast.IfStmt) []*State {
	if x.Init != nil {
		sts := vc.execStmt(st, x.Init)
		if len(sts) != 1 {
			if len(sts) == 0 {
				return nil
			}
			vc.fail(x, "init statement forked")
		}
		st = sts[0]
	}
	c := vc.evalExpr(st, x.Cond)
	nf := len(st.facts)
	thenSt := st.clone()
	thenSt.assume(c.S)
	elseSt := st
	elseSt.assume(not(c.S))
	thenOut := vc.execBlock([]*State{thenSt}, x.Body.List)
	var elseOut []*State
	if x.Else != nil {
		elseOut = vc.execStmt(elseSt, x.Else)
	} else {
		elseOut = []*State{elseSt}
	}
	// merge single fall-through states
	if len(thenOut) == 1 && len(elseOut) == 1 && len(thenOut[0].defers) == len(elseOut[0].defers) && vc.spec.Opts["merge"] != "off" {
		return []*State{vc.mergeStates(nf, c.S, thenOut[0], elseOut[0])}
	}
	return append(thenOut, elseOut...)
}

// mergeStates joins s1 (executed under c) and s2 (executed under not c); both extend a common
// prefix of nf facts.
func (vc *VC) mergeStates(nf int, c string, s1, s2 *State) *State {
	out := s2.clone()
	out.facts = append([]string(nil), s2.facts[:nf]...)
	for _, f := range s1.facts[nf:] {
		if f == c {
			continue
		}
		out.assume(imp(c, f))
	}
	nc := not(c)
	for _, f := range s2.facts[nf:] {
		if f == nc {
			continue
		}
		out.assume(imp(nc, f))
	}
	for o, v1 := range s1.vars {
		v2, ok := s2.vars[o]
		if !ok {
			continue // variable local to the branch
		}
		if v1.S != v2.S {
			v2.S = ite(c, v1.S, v2.S)
			out.vars[o] = vc.nameIfBig(out, v2)
		}
	}
	for o := range out.vars {
		if _, ok := s1.vars[o]; !ok {
			delete(out.vars, o)
		}
	}
	names := map[string]bool{}
	for h := range s1.heap {
		names[h] = true
	}
	for h := range s2.heap {
		names[h] = true
	}
	for h := range names {
		t1, ok1 := s1.heap[h]
		if !ok1 {
			t1 = vc.heap0[h]
		}
		t2, ok2 := s2.heap[h]
		if !ok2 {
			t2 = vc.heap0[h]
		}
		if t1.S != t2.S {
			out.heap[h] = vc.nameIfBig(out, Term{S: ite(c, t1.S, t2.S), Sort: t1.Sort})
		} else {
			out.heap[h] = t1
		}
	}
	if s1.alloc != s2.alloc {
		out.alloc = ite(c, s1.alloc, s2.alloc)
	}
	for k, v2 := range s2.ghost {
		if v1, ok := s1.ghost[k]; ok && v1.S != v2.S {
			v2.S = ite(c, v1.S, v2.S)
			out.ghost[k] = v2
		}
	}
	for o, c1 := range s1.cells {
		if c2, ok := s2.cells[o]; !ok || c2.S != c1.S {
			delete(out.cells, o)
		}
	}
	for o := range out.alias {
		if a1, ok := s1.alias[o]; !ok || a1 != out.alias[o] {
			delete(out.alias, o)
		}
	}
	for o, f2 := range s2.freshSl {
		out.freshSl[o] = f2 && s1.freshSl[o]
	}
	return out
}

func (vc *VC) execSwitch(st *State, x *ast.SwitchStmt, label string) []*State {
	if x.Init != nil {
		sts := vc.execStmt(st, x.Init)
		if len(sts) != 1 {
			vc.fail(x, "switch init forked")
		}
		st = sts[0]
	}
	var tag *Term
	if x.Tag != nil {
		t := vc.evalExpr(st, x.Tag)
		tag = &t
	}
	tg := &target{label: label}
	vc.targets = append(vc.targets, tg)
	var out []*State
	cur := st
	var deflt *ast.CaseClause
	for _, c := range x.Body.List {
		cc := c.(*ast.CaseClause)
		if cc.List == nil {
			deflt = cc
			continue
		}
		var conds []string
		for _, e := range cc.List {
			v := vc.evalExpr(cur, e)
			if tag != nil {
				conds = append(conds, vc.equal(*tag, v))
			} else {
				conds = append(conds, v.S)
			}
		}
		cond := or(conds...)
		body := cur.clone()
		body.assume(cond)
		cur.assume(not(cond))
		out = append(out, vc.execCaseBody(body, cc.Body)...)
	}
	if deflt != nil {
		out = append(out, vc.execCaseBody(cur, deflt.Body)...)
	} else {
		out = append(out, cur)
	}
	vc.targets = vc.targets[:len(vc.targets)-1]
	out = append(out, tg.breaks...)
	return out
}

func (vc *VC) execCaseBody(st *State, body []ast.Stmt) []*State {
	for _, s := range body {
		if bs, ok := s.(*ast.BranchStmt); ok && bs.Tok == token.FALLTHROUGH {
			vc.fail(s, "fallthrough")
		}
	}
	return vc.execBlock([]*State{st}, body)
}

func (vc *VC) execTypeSwitch(st *State, x *ast.TypeSwitchStmt, label string) []*State {
	if x.Init != nil {
		sts := vc.execStmt(st, x.Init)
		if len(sts) != 1 {
			vc.fail(x, "switch init forked")
		}
		st = sts[0]
	}
	var subject ast.Expr
	bind := false
	switch a := x.Assign.(type) {
	case *ast.ExprStmt:
		subject = a.X.(*ast.TypeAssertExpr).X
	case *ast.AssignStmt:
		subject = a.Rhs[0].(*ast.TypeAssertExpr).X
		bind = true
	}
	v := vc.evalExpr(st, subject)
	tg := &target{label: label}
	vc.targets = append(vc.targets, tg)
	var out []*State
	cur := st
	var deflt *ast.CaseClause
	for _, c := range x.Body.List {
		cc := c.(*ast.CaseClause)
		if cc.List == nil {
			deflt = cc
			continue
		}
		var conds []string
		var single types.Type
		for _, e := range cc.List {
			if id, ok := e.(*ast.Ident); ok && id.Name == "nil" {
				conds = append(conds, vc.isNil(v))
				continue
			}
			t := vc.typeOf(e)
			single = t
			conds = append(conds, vc.hasDynType(v, t))
		}
		cond := or(conds...)
		body := cur.clone()
		body.assume(cond)
		cur.assume(not(cond))
		if bind {
			if obj := vc.info.Implicits[cc]; obj != nil {
				if len(cc.List) == 1 && single != nil {
					body.vars[obj] = vc.unbox(v, vc.ts.apply(obj.Type()))
				} else {
					body.vars[obj] = vc.coerce(v, vc.ts.apply(obj.Type()))
				}
			}
		}
		out = append(out, vc.execCaseBody(body, cc.Body)...)
	}
	if deflt != nil {
		if bind {
			if obj := vc.info.Implicits[deflt]; obj != nil {
				cur.vars[obj] = vc.coerce(v, vc.ts.apply(obj.Type()))
			}
		}
		out = append(out, vc.execCaseBody(cur, deflt.Body)...)
	} else {
		out = append(out, cur)
	}
	vc.targets = vc.targets[:len(vc.targets)-1]
	out = append(out, tg.breaks...)
	return out
}

// ---------------------------------------------------------------------------------------
// return / defer

func (vc *VC) execReturn(st *State, x *ast.ReturnStmt) {
	sink := vc.sinks[len(vc.sinks)-1]
	results := sink.results
	if len(x.Results) > 0 {
		var vals []Term
		if len(x.Results) == 1 && len(results) > 1 {
			vals = vc.evalMulti(st, x.Results[0])
		} else {
			for _, r := range x.Results {
				vals = append(vals, vc.evalExpr(st, r))
			}
		}
		if st.dead {
			return
		}
		for i, rv := range results {
			st.vars[rv] = vc.coerce(vals[i], vc.ts.apply(rv.Type()))
		}
	}
	if sink.inline {
		sink.exits = append(sink.exits, st)
		return
	}
	if vc.dry > 0 {
		vc.dryExits = append(vc.dryExits, st)
		return
	}
	sink.exits = append(sink.exits, vc.runDefers(st)...)
}

// runDefers replays the deferred calls LIFO; deferred closures may fork.
func (vc *VC) runDefers(st *State) []*State {
	sts := []*State{st}
	for {
		var next []*State
		progressed := false
		for _, s := range sts {
			if s.dead {
				continue
			}
			if len(s.defers) == 0 {
				next = append(next, s)
				continue
			}
			progressed = true
			d := s.defers[len(s.defers)-1]
			s.defers = s.defers[:len(s.defers)-1]
			next = append(next, vc.runDeferred(s, d)...)
		}
		sts = next
		if !progressed {
			return sts
		}
	}
}

func (vc *VC) execDefer(st *State, x *ast.DeferStmt) {
	d := deferred{call: x.Call}
	if _, isLit := x.Call.Fun.(*ast.FuncLit); !isLit {
		// evaluate receiver/arguments now
		d.args = make([]Term, len(x.Call.Args))
		for i, a := range x.Call.Args {
			d.args[i] = vc.evalExpr(st, a)
		}
		d.pre = true
		if se, ok := x.Call.Fun.(*ast.SelectorExpr); ok {
			if sel, ok := vc.info.Selections[se]; ok && sel.Kind() == types.MethodVal {
				r := vc.evalExpr(st, se.X)
				d.recv = &r
			}
		} else if id, ok := x.Call.Fun.(*ast.Ident); ok {
			if _, isVar := vc.objOf(id).(*types.Var); isVar {
				f := vc.evalExpr(st, id)
				d.fn = &f
			}
		}
	}
	st.defers = append(st.defers, d)
}

func (vc *VC) runDeferred(st *State, d deferred) []*State {
	if lit, ok := d.call.Fun.(*ast.FuncLit); ok {
		return vc.inlineClosure(st, lit, nil)
	}
	vc.evalCallWith(st, d.call, d.recv, d.args, d.fn)
	return vc.afterCall(st)
}

// inlineClosure executes a closure body in the current state; a return inside ends the closure.
// Result values (if any) are left in the closure's result variables (closureResults).
func (vc *VC) inlineClosure(st *State, lit *ast.FuncLit, args []Term) []*State {
	sig := vc.typeOf(lit).(*types.Signature)
	i := 0
	if lit.Type.Params != nil {
		for _, f := range lit.Type.Params.List {
			for _, n := range f.Names {
				if obj := vc.info.Defs[n]; obj != nil && i < len(args) {
					st.vars[obj] = vc.coerce(args[i], vc.ts.apply(obj.Type()))
				}
				i++
			}
		}
	}
	results := vc.closureResults(lit, sig)
	for _, rv := range results {
		st.vars[rv] = vc.u.Zero(vc.ts.apply(rv.Type()))
	}
	sink := &retSink{results: results, inline: true}
	vc.sinks = append(vc.sinks, sink)
	savedTargets := vc.targets
	vc.targets = nil
	savedDefers := st.defers
	st.defers = nil
	outs := vc.execBlock([]*State{st}, lit.Body.List)
	vc.targets = savedTargets
	vc.sinks = vc.sinks[:len(vc.sinks)-1]
	outs = append(outs, sink.exits...)
	for _, o := range outs {
		if len(o.defers) > 0 {
			vc.fail(lit, "defer inside inlined closure")
		}
		o.defers = append([]deferred(nil), savedDefers...)
	}
	return outs
}

func (vc *VC) closureResults(lit *ast.FuncLit, sig *types.Signature) []*types.Var {
	if rs, ok := vc.litResults[lit]; ok {
		return rs
	}
	var results []*types.Var
	if lit.Type.Results != nil {
		k := 0
		for _, f := range lit.Type.Results.List {
			if len(f.Names) == 0 {
				rv := types.NewVar(token.NoPos, vc.pkg, fmt.Sprintf("$cres%d", k), sig.Results().At(k).Type())
				results = append(results, rv)
				k++
				continue
			}
			for _, n := range f.Names {
				results = append(results, vc.info.Defs[n].(*types.Var))
				k++
			}
		}
	}
	vc.litResults[lit] = results
	return results
}

type retSink struct {
	results []*types.Var
	exits   []*State
	inline  bool
}
