package main

import (
	"os"
	"fmt"
	"go/ast"
	"go/constant"
	"go/token"
	"go/types"
	"strings"
)

// funcval: function values are Int references; closures/literals carry their AST for inlining.
type funcVal struct {
	Lit  *ast.FuncLit
	Fn   *types.Func
	Recv *Term
}

func (vc *VC) evalExpr(st *State, e ast.Expr) Term {
	ts := vc.evalMulti(st, e)
	if len(ts) != 1 {
		vc.fail(e, "expected single value from %s, got %d", exprString(e), len(ts))
	}
	return ts[0]
}

func (vc *VC) evalMulti(st *State, e ast.Expr) []Term {
	// constants
	if tv, ok := vc.info.Types[e]; ok && tv.Value != nil {
		return []Term{vc.constTerm(tv.Value, vc.ts.apply(tv.Type))}
	}
	switch x := e.(type) {
	case *ast.ParenExpr:
		return vc.evalMulti(st, x.X)
	case *ast.BasicLit:
		tv := vc.info.Types[e]
		return []Term{vc.constTerm(tv.Value, tv.Type)}
	case *ast.Ident:
		return []Term{vc.evalIdent(st, x)}
	case *ast.FuncLit:
		// one symbol per literal (captured variables are not part of the identity: listed limitation)
		name := "lit$" + sanitize(vc.litKey(x))
		vc.declare(name, "Int")
		r := vc.mk(name, vc.typeOf(x))
		vc.closures[r.S] = &funcVal{Lit: x}
		vc.addBase("(> " + name + " 0)")
		return []Term{r}
	case *ast.UnaryExpr:
		switch x.Op {
		case token.NOT:
			v := vc.evalExpr(st, x.X)
			return []Term{boolTerm(not(v.S))}
		case token.SUB:
			v := vc.evalExpr(st, x.X)
			return []Term{vc.mk("(- "+v.S+")", vc.typeOf(e))}
		case token.ADD:
			return []Term{vc.evalExpr(st, x.X)}
		case token.AND:
			return []Term{vc.evalAddr(st, x)}
		case token.ARROW:
			if vc.isTokenChan(x.X) {
				return []Term{vc.tokenRecv(st, x.X, x)}
			}
			if vc.isOpaqueRecvSource(x.X) {
				vc.fail(e, "blocking receive from a signal channel in expression position")
			}
			// a blocking receive in expression position: the join of the two outcomes of the sequential channel
			// model (an element is available / closed and drained); blocking forever has no continuation
			{
				ch := vc.evalExpr(st, x.X)
				ci := vc.chanInfo(ch.T)
				// other goroutines (not modelled) may have sent in the meantime: the history seen by this receive is
				// the known history followed by an arbitrary suffix
				{
					old := vc.chanBuf(st, ci, ch.S)
					ext := vc.fresh("chanext", old.T)
					k := "(forall ((i!e Int)) (! (=> (and (<= 0 i!e) (< i!e " + vc.sliceLen(old) + ")) (= (select " + vc.sliceArr(ext) + " i!e) (select " + vc.sliceArr(old) + " i!e))) :pattern ((select " + vc.sliceArr(ext) + " i!e))))"
					st.assume(and("(>= "+vc.sliceLen(ext)+" "+vc.sliceLen(old)+")", k, vc.u.WF(ext.S, old.T, st.alloc)))
					h := vc.heapGet(st, ci.bn, ci.bsort, old.T)
					st.heap[ci.bn] = Term{S: store(h.S, ch.S, ext.S), Sort: ci.bsort}
				}
				buf := vc.chanBuf(st, ci, ch.S)
				head := vc.chanHead(st, ch.S)
				ln := vc.sliceLen(buf)
				avail := and("(<= 0 "+head+")", "(< "+head+" "+ln+")")
				st.assume(and(not(eq(ch.S, "0")), or(avail, and("(>= "+head+" "+ln+")", vc.chanClosed(st, ch.S)))))
				v := vc.mk("(ite "+avail+" "+sel(vc.sliceArr(buf), head)+" "+vc.u.Zero(ci.E).S+")", ci.E)
				st.assume(vc.u.WF(v.S, ci.E, st.alloc))
				hh := vc.heapGet(st, "Chh", "(Array Int Int)", nil)
				st.heap["Chh"] = Term{S: store(hh.S, ch.S, "(ite "+avail+" (+ "+head+" 1) "+head+")"), Sort: "(Array Int Int)"}
				vc.note("assumed: sequential channel model for a blocking receive (an element is available or the channel is closed and drained)")
				return []Term{v}
			}
		}
	case *ast.BinaryExpr:
		return []Term{vc.evalBinary(st, x)}
	case *ast.CallExpr:
		return vc.evalCall(st, x)
	case *ast.SelectorExpr:
		return []Term{vc.evalSelector(st, x)}
	case *ast.IndexExpr:
		return []Term{vc.evalIndex(st, x, false)[0]}
	case *ast.SliceExpr:
		base := vc.evalExpr(st, x.X)
		if pt, ok := under(base.T).(*types.Pointer); ok {
			base = vc.loadDeref(st, vc.ts.apply(pt.Elem()), base.S)
		}
		lo := intTerm("0")
		if x.Low != nil {
			lo = vc.evalExpr(st, x.Low)
		}
		var hi Term
		if x.High != nil {
			hi = vc.evalExpr(st, x.High)
		} else {
			hi = vc.lenOf(st, base)
		}
		ln := vc.lenOf(st, base)
		vc.oblige(st, "safe-slice", exprString(e), vc.pos(e),
			fmt.Sprintf("(and (<= 0 %s) (<= %s %s) (<= %s %s))", lo.S, lo.S, hi.S, hi.S, ln.S), nil)
		r := vc.sliceOf(st, base, lo, hi)
		r.T = vc.typeOf(e)
		return []Term{r}
	case *ast.StarExpr:
		p := vc.evalExpr(st, x.X)
		vc.oblige(st, "safe-nil", exprString(e), vc.pos(e), not(eq(p.S, "0")), nil)
		pt := under(p.T).(*types.Pointer)
		return []Term{vc.loadDeref(st, vc.ts.apply(pt.Elem()), p.S)}
	case *ast.CompositeLit:
		return []Term{vc.evalComposite(st, x, vc.typeOf(x))}
	case *ast.TypeAssertExpr:
		v := vc.evalExpr(st, x.X)
		t := vc.typeOf(x.Type)
		vc.oblige(st, "safe-assert", exprString(e), vc.pos(e), vc.hasDynType(v, t), nil)
		return []Term{vc.unbox(v, t)}
	case *ast.KeyValueExpr:
		vc.fail(e, "unexpected key-value expr")
	}
	vc.fail(e, "unsupported expression %s (%T)", exprString(e), e)
	return nil
}

func (vc *VC) evalIdent(st *State, x *ast.Ident) Term {
	obj := vc.info.Uses[x]
	if obj == nil {
		obj = vc.info.Defs[x]
	}
	switch o := obj.(type) {
	case *types.Nil:
		return Term{S: "0", T: types.Typ[types.UntypedNil], Sort: "Int"}
	case *types.Const:
		return vc.constTerm(o.Val(), vc.ts.apply(o.Type()))
	case *types.Var:
		if cell, ok := st.cells[o]; ok {
			// the variable's address was taken: its current value lives in the cell
			pt := under(cell.T).(*types.Pointer)
			return vc.loadDeref(st, vc.ts.apply(pt.Elem()), cell.S)
		}
		if v, ok := st.vars[o]; ok {
			return v
		}
		if o.Parent() == o.Pkg().Scope() {
			return vc.globalVar(o)
		}
		// captured variable of an enclosing function (closure verified on its own)
		if vc.fi.Lit != nil {
			t := vc.ts.apply(o.Type())
			v := vc.mk("cap$"+sanitize(o.Name()), t)
			vc.declare(v.S, v.Sort)
			vc.base = append(vc.base, vc.u.WF(v.S, t, "alloc@0"))
			st.vars[o] = v
			return v
		}
		vc.fail(x, "variable %s has no value", o.Name())
	case *types.Func:
		r := vc.mk("fn$"+sanitize(o.FullName()), vc.ts.apply(o.Type()))
		vc.declare(r.S, "Int")
		vc.closures[r.S] = &funcVal{Fn: o}
		return r
	}
	if x.Name == "_" {
		vc.fail(x, "blank identifier read")
	}
	vc.fail(x, "unsupported identifier %s (%T)", x.Name, obj)
	return Term{}
}

func (vc *VC) evalBinary(st *State, x *ast.BinaryExpr) Term {
	switch x.Op {
	case token.LAND, token.LOR:
		a := vc.evalExpr(st, x.X)
		cond := a.S
		if x.Op == token.LOR {
			cond = not(a.S)
		}
		st2 := st.clone()
		st2.assume(cond)
		nf := len(st2.facts)
		b := vc.evalExpr(st2, x.Y)
		vc.mergeInto(st, st2, cond, nf)
		if x.Op == token.LAND {
			return boolTerm(and(a.S, b.S))
		}
		return boolTerm(or(a.S, b.S))
	}
	a := vc.evalExpr(st, x.X)
	b := vc.evalExpr(st, x.Y)
	// untyped constant operands take the other operand's type
	if s, ok := vc.compare(x.Op, a, b); ok {
		return boolTerm(s)
	}
	t := vc.typeOf(x)
	r, ok := vc.binArith(x.Op, a, b, t)
	if !ok {
		vc.fail(x, "unsupported operator %s", x.Op)
	}
	switch x.Op {
	case token.ADD, token.SUB, token.MUL:
		if isInteger(t) {
			r = vc.checkOverflow(st, r, t, x)
		}
	case token.QUO, token.REM:
		vc.oblige(st, "safe-div", exprString(x), vc.pos(x), not(eq(b.S, "0")), nil)
	}
	return r
}

func (vc *VC) checkOverflow(st *State, r Term, t types.Type, at ast.Node) Term {
	lo, hi, ok := intRange(t)
	if !ok {
		return r
	}
	if b, ok := under(t).(*types.Basic); ok && b.Info()&types.IsUnsigned != 0 {
		// unsigned arithmetic wraps silently; model exactly
		return vc.convertInt(Term{S: r.S, T: types.Typ[types.UntypedInt], Sort: "Int"}, t)
	}
	if vc.spec.Opts["overflow"] == "assume" {
		st.assume(fmt.Sprintf("(and (<= %s %s) (<= %s %s))", lo, r.S, r.S, hi))
		vc.note("assumed: no overflow in " + exprStringNode(at))
		return r
	}
	vc.oblige(st, "safe-overflow", exprStringNode(at), vc.pos(at), fmt.Sprintf("(and (<= %s %s) (<= %s %s))", lo, r.S, r.S, hi), nil)
	return r
}

func exprStringNode(n ast.Node) string {
	if e, ok := n.(ast.Expr); ok {
		return exprString(e)
	}
	return fmt.Sprintf("%T", n)
}

func (vc *VC) note(s string) {
	for _, n := range vc.notes {
		if n == s {
			return
		}
	}
	vc.notes = append(vc.notes, s)
}

// mergeInto merges st2 (a clone of st executed under cond, whose facts from index nf on are new) back into st.
func (vc *VC) mergeInto(st, st2 *State, cond string, nf int) {
	base := len(st.facts)
	_ = base
	for _, f := range st2.facts[nf:] {
		st.assume(imp(cond, f))
	}
	for o, v2 := range st2.vars {
		v1, ok := st.vars[o]
		if !ok {
			continue
		}
		if v1.S != v2.S {
			v1.S = ite(cond, v2.S, v1.S)
			st.vars[o] = vc.nameIfBig(st, v1)
		}
	}
	for h, t2 := range st2.heap {
		t1, ok := st.heap[h]
		if !ok {
			t1 = vc.heap0[h]
		}
		if t1.S != t2.S {
			t := Term{S: ite(cond, t2.S, t1.S), Sort: t2.Sort}
			st.heap[h] = vc.nameIfBig(st, t)
		}
	}
	if st.alloc != st2.alloc {
		st.alloc = ite(cond, st2.alloc, st.alloc)
	}
	for k, v2 := range st2.ghost {
		if v1, ok := st.ghost[k]; ok && v1.S != v2.S {
			v1.S = ite(cond, v2.S, v1.S)
			st.ghost[k] = v1
		}
	}
}

// nameIfBig introduces a definition for large terms to keep formulas small.
func (vc *VC) nameIfBig(st *State, t Term) Term {
	if len(t.S) < 400 {
		return t
	}
	n := vc.u.Fresh("t")
	vc.declare(n, t.Sort)
	st.assume(eq(n, t.S))
	t.S = n
	return t
}

func (vc *VC) evalSelector(st *State, x *ast.SelectorExpr) Term {
	if sel, ok := vc.info.Selections[x]; ok {
		switch sel.Kind() {
		case types.FieldVal:
			base := vc.evalExpr(st, x.X)
			// follow the selection path (embedded fields)
			cur := base
			for _, idx := range sel.Index() {
				t := cur.T
				if pt, ok := under(t).(*types.Pointer); ok {
					vc.oblige(st, "safe-nil", exprString(x), vc.pos(x), not(eq(cur.S, "0")), nil)
					et := vc.ts.apply(pt.Elem())
					stt := under(et).(*types.Struct)
					vc.checkGuard(st, et, stt.Field(idx).Name(), cur.S, false, x)
					cur = vc.loadField(st, et, stt.Field(idx), cur.S)
				} else {
					stt := under(t).(*types.Struct)
					f, _ := vc.selectField(st, cur, stt.Field(idx).Name())
					cur = f
				}
			}
			return cur
		case types.MethodVal:
			// method value (bound): only as a function value passed around
			recv := vc.evalExpr(st, x.X)
			fn := sel.Obj().(*types.Func)
			r := vc.fresh("mval", vc.typeOf(x))
			vc.closures[r.S] = &funcVal{Fn: fn, Recv: &recv}
			return r
		}
		vc.fail(x, "unsupported selection kind")
	}
	// qualified identifier
	obj := vc.info.Uses[x.Sel]
	switch o := obj.(type) {
	case *types.Const:
		return vc.constTerm(o.Val(), vc.ts.apply(o.Type()))
	case *types.Var:
		return vc.globalVar(o)
	case *types.Func:
		r := vc.mk("fn$"+sanitize(o.FullName()), vc.ts.apply(o.Type()))
		vc.declare(r.S, "Int")
		vc.closures[r.S] = &funcVal{Fn: o}
		return r
	}
	vc.fail(x, "unsupported selector %s", exprString(x))
	return Term{}
}

// evalIndex returns [value] or [value, ok] (commaOk) for a[i].
func (vc *VC) evalIndex(st *State, x *ast.IndexExpr, commaOk bool) []Term {
	// generic function instantiation f[T]
	if tv, ok := vc.info.Types[x.X]; ok {
		if _, isSig := under(tv.Type).(*types.Signature); isSig && !tv.IsValue() {
			vc.fail(x, "generic instantiation as value")
		}
	}
	if _, ok := vc.info.Instances[identOf(x.X)]; ok && identOf(x.X) != nil {
		return []Term{vc.evalExpr(st, x.X)}
	}
	base := vc.evalExpr(st, x.X)
	if pt, ok := under(base.T).(*types.Pointer); ok {
		vc.oblige(st, "safe-nil", exprString(x), vc.pos(x), not(eq(base.S, "0")), nil)
		base = vc.loadDeref(st, vc.ts.apply(pt.Elem()), base.S)
	}
	idx := vc.evalExpr(st, x.Index)
	if mt, ok := under(base.T).(*types.Map); ok {
		mi := vc.mapInfo(base.T)
		idx = vc.coerce(idx, vc.ts.apply(mt.Key()))
		v := vc.mapLookup(st, mi, base.S, idx.S)
		if os.Getenv("GOVC_NO_MLK") == "" && vc.pure == 0 && len(v.S) > 120 && !reBoundVar.MatchString(v.S) {
			// name the looked-up value: keeps the terms of later statements small
			nv := vc.fresh("mlk", v.T)
			nv.KT, nv.VT, nv.KS, nv.VS = v.KT, v.VT, v.KS, v.VS
			st.assume(eq(nv.S, v.S))
			v = nv
		}
		if commaOk {
			return []Term{v, boolTerm(vc.mapHas(st, mi, base.S, idx.S))}
		}
		return []Term{v}
	}
	ln := vc.lenOf(st, base)
	vc.oblige(st, "safe-index", exprString(x), vc.pos(x), fmt.Sprintf("(and (<= 0 %s) (< %s %s))", idx.S, idx.S, ln.S), nil)
	return []Term{vc.indexValue(st, base, idx)}
}

func identOf(e ast.Expr) *ast.Ident {
	switch x := e.(type) {
	case *ast.Ident:
		return x
	case *ast.SelectorExpr:
		return x.Sel
	}
	return nil
}

// evalAddr handles &x forms.
func (vc *VC) evalAddr(st *State, x *ast.UnaryExpr) Term {
	t := vc.typeOf(x)
	if t == nil {
		// synthesized &x (implicit address of a method receiver)
		t = types.NewPointer(vc.typeOf(x.X))
	}
	pt := under(t).(*types.Pointer)
	et := vc.ts.apply(pt.Elem())
	switch in := x.X.(type) {
	case *ast.CompositeLit:
		v := vc.evalComposite(st, in, et)
		r := vc.alloc(st, t)
		vc.storeDeref(st, et, r.S, v)
		return r
	case *ast.Ident:
		// &v of a local: allocate a cell holding a copy; the local is henceforth read through the cell
		obj := vc.info.Uses[in]
		if cell, ok := st.cells[obj]; ok {
			return cell
		}
		v := vc.evalExpr(st, in)
		r := vc.alloc(st, t)
		vc.storeDeref(st, et, r.S, v)
		st.cells[obj] = r
		return r
	case *ast.ParenExpr:
		return vc.evalAddr(st, &ast.UnaryExpr{Op: token.AND, X: in.X, OpPos: x.OpPos})
	case *ast.SelectorExpr:
		// &x.f as a call argument: temporary cell, written back after the call (see evalCallWith)
		v := vc.evalExpr(st, in)
		r := vc.alloc(st, t)
		vc.storeDeref(st, et, r.S, vc.coerce(v, et))
		st.fieldWB = append(st.fieldWB, fieldWriteBack{cell: r, lhs: in})
		return r
	}
	vc.fail(x, "unsupported address-of %s", exprString(x))
	return Term{}
}

func (vc *VC) evalComposite(st *State, x *ast.CompositeLit, t types.Type) Term {
	switch tt := under(t).(type) {
	case *types.Struct:
		v := vc.u.Zero(t)
		for i, el := range x.Elts {
			if kv, ok := el.(*ast.KeyValueExpr); ok {
				name := kv.Key.(*ast.Ident).Name
				for j := 0; j < tt.NumFields(); j++ {
					if tt.Field(j).Name() == name {
						ft := vc.ts.apply(tt.Field(j).Type())
						v = vc.structUpdate(v, j, vc.coerce(vc.evalElem(st, kv.Value, ft), ft))
					}
				}
			} else {
				ft := vc.ts.apply(tt.Field(i).Type())
				v = vc.structUpdate(v, i, vc.coerce(vc.evalElem(st, el, ft), ft))
			}
		}
		return v
	case *types.Array:
		v := vc.u.Zero(t)
		et := vc.ts.apply(tt.Elem())
		for i, el := range x.Elts {
			if _, ok := el.(*ast.KeyValueExpr); ok {
				vc.fail(x, "keyed array literal")
			}
			v = vc.arrayUpdate(v, int64(i), vc.coerce(vc.evalElem(st, el, et), et))
		}
		return v
	case *types.Slice:
		et := vc.ts.apply(tt.Elem())
		es := vc.u.SortOf(et)
		arr := fmt.Sprintf("((as const (Array Int %s)) %s)", es, vc.u.Zero(et).S)
		for i, el := range x.Elts {
			if _, ok := el.(*ast.KeyValueExpr); ok {
				vc.fail(x, "keyed slice literal")
			}
			arr = store(arr, fmt.Sprint(i), vc.coerce(vc.evalElem(st, el, et), et).S)
		}
		return vc.mkSlice(t, arr, fmt.Sprint(len(x.Elts)), "true")
	case *types.Map:
		r := vc.mapNew(st, t)
		mi := vc.mapInfo(t)
		for _, el := range x.Elts {
			kv := el.(*ast.KeyValueExpr)
			k := vc.coerce(vc.evalElem(st, kv.Key, mi.K), mi.K)
			v := vc.coerce(vc.evalElem(st, kv.Value, mi.V), mi.V)
			vc.mapStore(st, mi, r.S, k.S, v)
		}
		return r
	case *types.Pointer:
		// elided &T in []*T{{...}}
		et := vc.ts.apply(tt.Elem())
		v := vc.evalComposite(st, x, et)
		r := vc.alloc(st, t)
		vc.storeDeref(st, et, r.S, v)
		return r
	}
	vc.fail(x, "unsupported composite literal of type %v", t)
	return Term{}
}

// evalElem evaluates a composite element, handling elided inner composite types.
func (vc *VC) evalElem(st *State, e ast.Expr, t types.Type) Term {
	if cl, ok := e.(*ast.CompositeLit); ok && cl.Type == nil {
		return vc.evalComposite(st, cl, t)
	}
	return vc.evalExpr(st, e)
}

// ---------------------------------------------------------------------------------------
// assignment to lvalues

func (vc *VC) assign(st *State, lhs ast.Expr, v Term) {
	switch x := lhs.(type) {
	case *ast.ParenExpr:
		vc.assign(st, x.X, v)
		return
	case *ast.Ident:
		if x.Name == "_" {
			return
		}
		obj := vc.info.Defs[x]
		if obj == nil {
			obj = vc.info.Uses[x]
		}
		vo, ok := obj.(*types.Var)
		if !ok {
			vc.fail(lhs, "assignment to non-variable %s", x.Name)
		}
		v = vc.coerce(v, vc.ts.apply(vo.Type()))
		if cell, ok := st.cells[obj]; ok {
			pt := under(cell.T).(*types.Pointer)
			vc.storeDeref(st, vc.ts.apply(pt.Elem()), cell.S, v)
		} else if vc.addrTaken[obj] && vc.info.Defs[x] != nil {
			// address-taken local: lives in a cell from its declaration on
			vt := vc.ts.apply(vo.Type())
			r := vc.alloc(st, types.NewPointer(vt))
			vc.storeDeref(st, vt, r.S, v)
			st.cells[obj] = r
		}
		st.vars[obj] = v
		return
	case *ast.SelectorExpr:
		sel, ok := vc.info.Selections[x]
		if !ok || sel.Kind() != types.FieldVal {
			vc.fail(lhs, "unsupported assignment target %s", exprString(lhs))
		}
		if len(sel.Index()) != 1 {
			vc.fail(lhs, "assignment through embedded field %s", exprString(lhs))
		}
		bt := vc.typeOf(x.X)
		if pt, ok := under(bt).(*types.Pointer); ok {
			ref := vc.evalExpr(st, x.X)
			vc.oblige(st, "safe-nil", exprString(lhs), vc.pos(lhs), not(eq(ref.S, "0")), nil)
			et := vc.ts.apply(pt.Elem())
			stt := under(et).(*types.Struct)
			f := stt.Field(sel.Index()[0])
			vc.checkImmutableWrite(st, et, ref.S, lhs)
			vc.checkGuard(st, et, f.Name(), ref.S, true, lhs)
			vc.storeField(st, et, f, ref.S, vc.coerce(v, vc.ts.apply(f.Type())))
			return
		}
		old := vc.evalExpr(st, x.X)
		stt := under(bt).(*types.Struct)
		idx := sel.Index()[0]
		nv := vc.structUpdate(old, idx, vc.coerce(v, vc.ts.apply(stt.Field(idx).Type())))
		vc.assign(st, x.X, nv)
		return
	case *ast.StarExpr:
		ref := vc.evalExpr(st, x.X)
		vc.oblige(st, "safe-nil", exprString(lhs), vc.pos(lhs), not(eq(ref.S, "0")), nil)
		pt := under(ref.T).(*types.Pointer)
		et := vc.ts.apply(pt.Elem())
		vc.checkImmutableWrite(st, et, ref.S, lhs)
		vc.storeDeref(st, et, ref.S, vc.coerce(v, et))
		return
	case *ast.IndexExpr:
		bt := vc.typeOf(x.X)
		switch tt := under(bt).(type) {
		case *types.Map:
			ref := vc.evalExpr(st, x.X)
			mi := vc.mapInfo(bt)
			k := vc.coerce(vc.evalExpr(st, x.Index), mi.K)
			vc.oblige(st, "safe-mapwrite", exprString(lhs), vc.pos(lhs), not(eq(ref.S, "0")), nil)
			vc.checkGuardExpr(st, x.X, true)
			vc.mapStore(st, mi, ref.S, k.S, vc.coerce(v, mi.V))
			return
		case *types.Slice:
			old := vc.evalExpr(st, x.X)
			idx := vc.evalExpr(st, x.Index)
			vc.oblige(st, "safe-index", exprString(lhs), vc.pos(lhs), fmt.Sprintf("(and (<= 0 %s) (< %s %s))", idx.S, idx.S, vc.sliceLen(old)), nil)
			et := vc.ts.apply(tt.Elem())
			nv := vc.mkSlice(old.T, store(vc.sliceArr(old), idx.S, vc.coerce(v, et).S), vc.sliceLen(old), vc.sliceNN(old))
			vc.assignSliceElemTarget(st, x.X, nv)
			return
		case *types.Array:
			old := vc.evalExpr(st, x.X)
			tv := vc.info.Types[x.Index]
			if tv.Value == nil {
				vc.fail(lhs, "array element assignment with non-constant index")
			}
			n, _ := constant.Int64Val(tv.Value)
			nv := vc.arrayUpdate(old, n, vc.coerce(v, vc.ts.apply(tt.Elem())))
			vc.assign(st, x.X, nv)
			return
		}
	}
	vc.fail(lhs, "unsupported assignment target %s", exprString(lhs))
}

// assignSliceElemTarget writes back a slice value whose element was updated, respecting aliasing
// with the place the slice was read from.
func (vc *VC) assignSliceElemTarget(st *State, target ast.Expr, nv Term) {
	if id, ok := target.(*ast.Ident); ok {
		obj := vc.info.Uses[id]
		if obj == nil {
			obj = vc.info.Defs[id]
		}
		if al, ok := st.alias[obj]; ok {
			st.vars[obj] = nv
			al.write(st, nv)
			return
		}
		if !st.freshSl[obj] {
			vc.fail(target, "element write through slice %s that is neither fresh nor a tracked alias", id.Name)
		}
		st.vars[obj] = nv
		return
	}
	vc.assign(st, target, nv)
}

func (vc *VC) checkImmutableWrite(st *State, structT types.Type, ref string, at ast.Node) {
	if n, ok := structT.(*types.Named); ok && vc.p.con.Immutable[n.Obj().Name()] {
		goal := "(>= " + ref + " alloc@0)"
		for _, c := range vc.constructing {
			// objects handed over by the caller as still unshared (requires callerfresh(p)) may be filled in
			goal = or(goal, eq(ref, c))
		}
		vc.oblige(st, "immutable", "write to "+n.Obj().Name()+" only on objects allocated in this activation (or handed over unshared by the caller)", vc.pos(at),
			goal, nil)
	}
}

var _ = strings.TrimSpace

// checkGuard: accesses to fields declared `guarded Struct.field by mu` need the lock (read: any mode,
// write: exclusive), unless the object was allocated in this activation (not yet shared).
func (vc *VC) checkGuard(st *State, structT types.Type, field, ref string, write bool, at ast.Node) {
	n, ok := structT.(*types.Named)
	if !ok {
		return
	}
	mu, ok := vc.p.con.Guarded[n.Obj().Name()+"."+field]
	if !ok {
		return
	}
	what := "read"
	if write {
		what = "write"
	}
	var need string
	if parts := strings.Split(mu, "."); len(parts) == 3 {
		// guarded S.f by Owner.ptrField.mu: the object is reached only through Owner.ptrField and is
		// protected by the owner's mutex: some owner o with o.ptrField == ref holds its lock.
		obj := n.Obj().Pkg().Scope().Lookup(parts[0])
		if obj == nil {
			vc.fail(at, "guarded: unknown owner type "+parts[0])
		}
		ownerT := obj.Type()
		ost := under(ownerT).(*types.Struct)
		var pf *types.Var
		for i := 0; i < ost.NumFields(); i++ {
			if ost.Field(i).Name() == parts[1] {
				pf = ost.Field(i)
			}
		}
		if pf == nil {
			vc.fail(at, "guarded: unknown owner field "+mu)
		}
		fh, fsort := vc.fieldHeap(ownerT, pf)
		ph := vc.heapGet(st, fh, fsort, pf.Type())
		lh := vc.heapGet(st, vc.lockHeapName(ownerT, parts[2]), "(Array Int Int)", nil)
		cur := sel(lh.S, "o!g")
		lk := "(>= " + cur + " 1)"
		if write {
			lk = eq(cur, "2")
		}
		need = "(exists ((o!g Int)) " + and("(> o!g 0)", eq(sel(ph.S, "o!g"), ref), lk) + ")"
		mu = "the " + mu + " of its owner"
	} else {
		hn := vc.lockHeapName(structT, mu)
		h := vc.heapGet(st, hn, "(Array Int Int)", nil)
		cur := sel(h.S, ref)
		need = "(>= " + cur + " 1)"
		if write {
			need = eq(cur, "2")
		}
	}
	vc.oblige(st, "lockset", fmt.Sprintf("%s of %s.%s requires %s to be held", what, n.Obj().Name(), field, mu), vc.pos(at),
		or("(>= "+ref+" alloc@0)", need), nil)
}

// checkGuardExpr: e is an expression `owner.field`; writing through it (map store/delete) needs the write lock.
func (vc *VC) checkGuardExpr(st *State, e ast.Expr, write bool) {
	se, ok := ast.Unparen(e).(*ast.SelectorExpr)
	if !ok {
		return
	}
	sel, ok := vc.info.Selections[se]
	if !ok || sel.Kind() != types.FieldVal || len(sel.Index()) != 1 {
		return
	}
	pt, ok := under(vc.typeOf(se.X)).(*types.Pointer)
	if !ok {
		return
	}
	sc := st.clone()
	owner := vc.evalExprQuiet(sc, se.X)
	vc.checkGuard(st, vc.ts.apply(pt.Elem()), se.Sel.Name, owner.S, write, e)
}

// ---- 1-slot "token" channels that serialise access to a state object (s := <-ch ... ch <- s)

func (vc *VC) isTokenChan(e ast.Expr) bool {
	toks := vc.spec.Opts["tokens"]
	if toks == "" {
		return false
	}
	se, ok := ast.Unparen(e).(*ast.SelectorExpr)
	if !ok {
		return false
	}
	for _, t := range strings.Split(toks, ",") {
		if strings.TrimSpace(t) == se.Sel.Name {
			return true
		}
	}
	return false
}

func (vc *VC) tokenHeaps(st *State, elemT types.Type) (held Term, val Term, vname, vsort string) {
	es := vc.u.SortOf(elemT)
	vname, vsort = "G$tokval$"+sanitize(es), "(Array Int "+es+")"
	held = vc.heapGet(st, "G$tokheld", "(Array Int Int)", nil)
	val = vc.heapGet(st, vname, vsort, elemT)
	return
}

func (vc *VC) tokenRecv(st *State, chE ast.Expr, at ast.Node) Term {
	ch := vc.evalExpr(st, chE)
	et := vc.ts.apply(under(ch.T).(*types.Chan).Elem())
	held, val, _, _ := vc.tokenHeaps(st, et)
	vc.oblige(st, "token-protocol", "receive from state channel "+exprString(chE)+" while its token is not already held by this activation", vc.pos(at),
		not(eq(sel(held.S, ch.S), "1")), nil)
	st.heap["G$tokheld"] = Term{S: store(held.S, ch.S, "1"), Sort: "(Array Int Int)"}
	vc.note("assumed: a 1-slot state channel behaves as a mutex around its state object (receive = acquire, send = release)")
	return vc.mk(sel(val.S, ch.S), et)
}

func (vc *VC) tokenSend(st *State, chE ast.Expr, v Term, at ast.Node) {
	ch := vc.evalExpr(st, chE)
	et := vc.ts.apply(under(ch.T).(*types.Chan).Elem())
	held, val, _, _ := vc.tokenHeaps(st, et)
	vc.oblige(st, "token-protocol", "send on state channel "+exprString(chE)+" returns the token that was taken (same object, held exactly once)", vc.pos(at),
		and(eq(sel(held.S, ch.S), "1"), eq(v.S, sel(val.S, ch.S))), nil)
	st.heap["G$tokheld"] = Term{S: store(held.S, ch.S, "0"), Sort: "(Array Int Int)"}
}
